(* NodeModel.v — executable model of the sequential semantics of torchdata.nodes
   (base_node.py, adapters.py, batch.py, filter.py, map.py [Mapper inline; ParallelMapper and
   Prefetcher by their sequential specification], loader.py).
   One Gallina function per Python method: reset / next / get_state over a runtime-state tree.
   C02, C04 (sequential part), C08 and C13 are stated over this model.  No proofs here. *)
From PD Require Import Base.
Open Scope string_scope.
Open Scope list_scope.
Open Scope nat_scope.

(* ------------------------------------------------------------------ *)
(* items, user functions, state dicts                                  *)
Inductive item := INat (n : nat) | INone | IList (l : list item).

Inductive fn := FAdd (k : nat) | FWrap | FNoneIfEven.          (* map functions used by the harness *)
Fixpoint apply_fn (f : fn) (x : item) {struct x} : item :=
  match f, x with
  | FAdd k, INat n => INat (n + k)
  | FAdd k, IList l => IList (map (apply_fn (FAdd k)) l)
  | FAdd _, INone => INone
  | FWrap, _ => IList [x]
  | FNoneIfEven, INat n => if Nat.even n then INone else INat n
  | FNoneIfEven, _ => x
  end.

Inductive pred := QEven | QLt (k : nat) | QNotNone | QTrue | QFalse.
Definition apply_pred (q : pred) (x : item) : bool :=
  match q, x with
  | QEven, INat n => Nat.even n
  | QEven, _ => false
  | QLt k, INat n => Nat.ltb n k
  | QLt _, _ => true
  | QNotNone, INone => false
  | QNotNone, _ => true
  | QTrue, _ => true
  | QFalse, _ => false
  end.

(* state dicts: nested dicts with string keys and int / None leaves *)
Inductive sd := SNat (n : nat) | SNone | SD (l : list (string * sd)).

Fixpoint sd_get (l : list (string * sd)) (k : string) : sd :=
  match l with [] => SNone | (k', v) :: r => if String.eqb k' k then v else sd_get r k end.
Definition sd_field (s : sd) (k : string) : sd := match s with SD l => sd_get l k | _ => SNone end.
Definition sd_nat (s : sd) : nat := match s with SNat n => n | _ => 0 end.

(* ------------------------------------------------------------------ *)
(* pipeline syntax                                                     *)
Inductive pipe :=
| PSrc (xs : list item) (stateful : bool)      (* IterableWrapper over a list / over a Stateful iterable *)
| PSampler (orders : list (list item))         (* SamplerWrapper over an epoch-dependent sampler: orders[epoch] *)
| PMap (f : fn) (p : pipe)                     (* Mapper = ParallelMapper(num_workers=0) *)
| PParMap (f : fn) (sf : nat) (p : pipe)       (* ParallelMapper(num_workers>0, in_order): sequential spec *)
| PPrefetch (sf : nat) (p : pipe)              (* Prefetcher: sequential spec *)
| PBatch (n : nat) (drop : bool) (p : pipe)
| PUnbatch (p : pipe)
| PFilter (q : pred) (p : pipe).

(* runtime state of a node object (and, recursively, of its sources) *)
Inductive rt :=
| RUninit                                                        (* BaseNode: reset() never called *)
| RSrc (pos : nat)
| RSampler (epoch : nat) (started : bool) (pos : nat)
| ROne (s : rt)                                                   (* Mapper, Batcher: no fields of their own *)
| RBuf (s : rt) (snap : sd) (steps : nat) (yielded : nat) (stopped : bool)   (* Prefetcher / ParallelMapper iterator *)
| RUnb (s : rt) (batch : list item) (idx : nat) (cached : option sd)
| RFil (s : rt) (nfil nyld : nat).

Inductive outcome := OItem (x : item) | OStop | OErr (msg : string).

Definition epoch_order (orders : list (list item)) (e : nat) : list item := nth e orders (last orders []).

Definition src_of (t : rt) : rt :=
  match t with
  | ROne s | RBuf s _ _ _ _ | RUnb s _ _ _ | RFil s _ _ => s
  | _ => RUninit
  end.

(* fuel for the loops of Unbatcher / Filter: one more than everything a source can deliver *)
Fixpoint item_size (x : item) : nat :=
  match x with
  | IList l => S (fold_right (fun y m => item_size y + m) 0 l)
  | _ => 1
  end.
Definition items_size (xs : list item) : nat := fold_right (fun y m => item_size y + m) 0 xs.
Fixpoint pipe_fuel (p : pipe) : nat :=
  match p with
  | PSrc xs _ => S (items_size xs)
  | PSampler orders => S (fold_right (fun o m => Nat.max (items_size o) m) 0 orders)
  | PMap _ q | PParMap _ _ q | PPrefetch _ q | PBatch _ _ q | PUnbatch q | PFilter _ q => S (pipe_fuel q)
  end.

Definition batch_items (x : item) : list item := match x with IList l => l | _ => [] end.

(* consumer-visible step of Prefetcher / ParallelMapper (sequential specification of the threads):
   pull one source item; every sf-th item of THIS iterator carries a snapshot of the source state
   taken right after it; the consumer adopts it when it receives that item *)
Definition buf_next_gen (nxt : rt -> outcome * rt) (stt : rt -> sd * rt) (f : option fn) (sf : nat) (t : rt) : outcome * rt :=
  match t with
  | RBuf s snap steps yielded stopped =>
      if stopped then (OStop, t) else
      match nxt s with
      | (OItem x, s1) =>
          let y := S yielded in
          let x' := match f with Some g => apply_fn g x | None => x end in
          if andb (Nat.ltb 0 sf) (Nat.eqb (y mod sf) 0) then
            let '(c, s2) := stt s1 in (OItem x', RBuf s2 c 0 y false)
          else (OItem x', RBuf s1 snap (S steps) y false)
      | (OStop, s1) => (OStop, RBuf s1 snap steps yielded true)
      | (o, s1) => (o, RBuf s1 snap steps yielded true)
      end
  | _ => (OErr "shape", t)
  end.

(* The three methods, mutually recursive over the pipeline.  [node_reset p t st] is
   node.reset(st) on the object whose current runtime state is t. *)
Fixpoint node_reset (p : pipe) (t : rt) (st : option sd) {struct p} : rt :=
  let fix ff (q : pipe) (k : nat) (t : rt) {struct k} : rt :=       (* k calls of next(), results dropped *)
      match k with 0 => t | S k' => ff q k' (snd (node_next_ q t)) end in
  match p with
  | PSrc xs stateful =>
      match st with
      | None => RSrc 0
      | Some s => if stateful then RSrc (sd_nat (sd_field (sd_field s "iterable") "i"))
                  else RSrc (sd_nat (sd_field s "_num_yielded"))
      end
  | PSampler orders =>
      match st with
      | Some s => RSampler (sd_nat (sd_field s "_epoch")) false (sd_nat (sd_field s "_num_yielded"))
      | None =>
          match t with
          | RSampler e started _ => RSampler (if started then S e else e) false 0
          | _ => RSampler 0 false 0
          end
      end
  | PMap f q =>
      ROne (node_reset q (src_of t) (option_map (fun s => sd_field (sd_field s "it_state") "source") st))
  | PBatch n d q => ROne (node_reset q (src_of t) (option_map (fun s => sd_field s "source") st))
  | PFilter pr q =>
      match st with
      | Some s => RFil (node_reset q (src_of t) (Some (sd_field s "source")))
                       (sd_nat (sd_field s "num_filtered")) (sd_nat (sd_field s "num_yielded"))
      | None => RFil (node_reset q (src_of t) None) 0 0
      end
  | PUnbatch q =>
      match st with
      | Some s =>
          let s0 := node_reset q (src_of t) (Some (sd_field s "source")) in
          match node_next_ q s0 with
          | (OItem b, s1) => RUnb s1 (batch_items b) (sd_nat (sd_field s "batch_idx")) (Some (sd_field s "source"))
          | (_, s1) => RUnb s1 [] 0 (Some (sd_field s "source"))
          end
      | None => RUnb (node_reset q (src_of t) None) [] 0 None
      end
  | PPrefetch sf q =>
      let fix ffb (k : nat) (t : rt) {struct k} : rt :=
          match k with 0 => t | S k' => ffb k' (snd (buf_next_gen (node_next_ q) (node_state_ q) None sf t)) end in
      match st with
      | Some s =>
          let s0 := node_reset q (src_of t) (Some (sd_field s "snapshot")) in
          let '(snap, s1) := node_state_ q s0 in
          ffb (sd_nat (sd_field s "steps_since_snapshot")) (RBuf s1 snap 0 0 false)
      | None =>
          let s0 := node_reset q (src_of t) None in
          let '(snap, s1) := node_state_ q s0 in RBuf s1 snap 0 0 false
      end
  | PParMap f sf q =>
      let fix ffb (k : nat) (t : rt) {struct k} : rt :=
          match k with 0 => t | S k' => ffb k' (snd (buf_next_gen (node_next_ q) (node_state_ q) (Some f) sf t)) end in
      match st with
      | Some s =>
          let s' := sd_field s "it_state" in
          let s0 := node_reset q (src_of t) (Some (sd_field s' "snapshot")) in
          let '(snap, s1) := node_state_ q s0 in
          ffb (sd_nat (sd_field s' "steps_since_snapshot")) (RBuf s1 snap 0 0 false)
      | None =>
          let s0 := node_reset q (src_of t) None in
          let '(snap, s1) := node_state_ q s0 in RBuf s1 snap 0 0 false
      end
  end

(* next() of an initialised node *)
with node_next_ (p : pipe) (t : rt) {struct p} : outcome * rt :=
  match p with
  | PSrc xs _ =>
      match t with
      | RSrc pos => match nth_error xs pos with
                    | Some x => (OItem x, RSrc (S pos))
                    | None => (OStop, t)
                    end
      | _ => (OErr "shape", t)
      end
  | PSampler orders =>
      match t with
      | RSampler e _ pos =>
          match nth_error (epoch_order orders e) pos with
          | Some x => (OItem x, RSampler e true (S pos))
          | None => (OStop, RSampler e true pos)
          end
      | _ => (OErr "shape", t)
      end
  | PMap f q =>
      match node_next_ q (src_of t) with
      | (OItem x, s) => (OItem (apply_fn f x), ROne s)
      | (o, s) => (o, ROne s)
      end
  | PBatch n d q =>
      let fix collect (todo : nat) (s : rt) (acc : list item) {struct todo} : outcome * rt :=
          match todo with
          | 0 => (OItem (IList acc), ROne s)
          | S todo' =>
              match node_next_ q s with
              | (OItem x, s') => collect todo' s' (acc ++ [x])
              | (OStop, s') => match acc with
                               | [] => (OStop, ROne s')
                               | _ => if d then (OStop, ROne s') else (OItem (IList acc), ROne s')
                               end
              | (o, s') => (o, ROne s')
              end
          end in
      collect n (src_of t) []
  | PFilter pr q =>
      match t with
      | RFil s nf ny =>
          let fix loop (fuel : nat) (s : rt) (nf : nat) {struct fuel} : outcome * rt :=
              match fuel with
              | 0 => (OErr "fuel", RFil s nf ny)
              | S fuel' =>
                  match node_next_ q s with
                  | (OItem x, s') => if apply_pred pr x then (OItem x, RFil s' nf (S ny)) else loop fuel' s' (S nf)
                  | (o, s') => (o, RFil s' nf ny)
                  end
              end in
          loop (pipe_fuel p) s nf
      | _ => (OErr "shape", t)
      end
  | PUnbatch q =>
      match t with
      | RUnb s batch idx cached =>
          let fix loop (fuel : nat) (s : rt) (batch : list item) (idx : nat) (cached : option sd) {struct fuel}
              : outcome * rt :=
              match fuel with
              | 0 => (OErr "fuel", RUnb s batch idx cached)
              | S fuel' =>
                  if Nat.leb (length batch) idx then
                    let '(c, s1) := node_state_ q s in
                    match node_next_ q s1 with
                    | (OItem b, s2) => loop fuel' s2 (batch_items b) 0 (Some c)
                    | (o, s2) => (o, RUnb s2 batch idx (Some c))
                    end
                  else (match nth_error batch idx with Some x => OItem x | None => OErr "index" end,
                        RUnb s batch (S idx) cached)
              end in
          loop (pipe_fuel p) s batch idx cached
      | _ => (OErr "shape", t)
      end
  | PPrefetch sf q => buf_next_gen (node_next_ q) (node_state_ q) None sf t
  | PParMap f sf q => buf_next_gen (node_next_ q) (node_state_ q) (Some f) sf t
  end

(* get_state() of an initialised node *)
with node_state_ (p : pipe) (t : rt) {struct p} : sd * rt :=
  match p with
  | PSrc xs stateful =>
      match t with
      | RSrc pos => (SD (("_num_yielded", SNat pos) :: (if stateful then [("iterable", SD [("i", SNat pos)])] else [])), t)
      | _ => (SNone, t)
      end
  | PSampler _ =>
      match t with
      | RSampler e _ pos => (SD [("_num_yielded", SNat pos); ("_epoch", SNat e)], t)
      | _ => (SNone, t)
      end
  | PMap f q => let '(c, s) := node_state_ q (src_of t) in (SD [("it_state", SD [("source", c)])], ROne s)
  | PBatch n d q => let '(c, s) := node_state_ q (src_of t) in (SD [("source", c)], ROne s)
  | PFilter pr q =>
      match t with
      | RFil s nf ny => let '(c, s') := node_state_ q s in
                        (SD [("source", c); ("num_filtered", SNat nf); ("num_yielded", SNat ny)], RFil s' nf ny)
      | _ => (SNone, t)
      end
  | PUnbatch q =>
      match t with
      | RUnb s batch idx (Some c) => (SD [("source", c); ("batch_idx", SNat idx)], t)
      | RUnb s batch idx None => let '(c, s') := node_state_ q s in
                                 (SD [("source", c); ("batch_idx", SNat idx)], RUnb s' batch idx (Some c))
      | _ => (SNone, t)
      end
  | PPrefetch sf q =>
      match t with
      | RBuf s snap steps _ _ => (SD [("snapshot", snap); ("steps_since_snapshot", SNat steps)], t)
      | _ => (SNone, t)
      end
  | PParMap f sf q =>
      match t with
      | RBuf s snap steps _ _ => (SD [("it_state", SD [("snapshot", snap); ("steps_since_snapshot", SNat steps)])], t)
      | _ => (SNone, t)
      end
  end.

(* BaseNode.__next__ / BaseNode.state_dict : reset(None) lazily on a node that was never reset.
   (Sources of an initialised node are always initialised: every reset() resets its source.) *)
Definition lazy_init (p : pipe) (t : rt) : rt := match t with RUninit => node_reset p RUninit None | _ => t end.
Definition node_next (p : pipe) (t : rt) : outcome * rt := node_next_ p (lazy_init p t).
Definition node_state (p : pipe) (t : rt) : sd * rt := node_state_ p (lazy_init p t).

(* ------------------------------------------------------------------ *)
(* Loader / LoaderIterator (loader.py, after fixes d28e551, 8c3f339, eff12ea) *)
Record li := {                     (* LoaderIterator *)
  li_root : rt;
  li_cached_item : option item;    (* None = the _NO_CACHED_ITEM sentinel *)
  li_cached_sd : option sd;
  li_num_yielded : nat }.

Definition li_reset (p : pipe) (it : li) (st : option sd) : li :=
  match st with
  | Some s => {| li_root := node_reset p (li_root it) (Some (sd_field s "root")); li_cached_item := None;
                 li_cached_sd := None; li_num_yielded := sd_nat (sd_field s "num_yielded") |}
  | None => {| li_root := node_reset p (li_root it) None; li_cached_item := None; li_cached_sd := None;
               li_num_yielded := 0 |}
  end.

Definition li_get_state (p : pipe) (it : li) : sd * li :=
  match li_cached_sd it with
  | Some c => (c, it)
  | None => let '(c, r) := node_state p (li_root it) in
            (SD [("root", c); ("num_yielded", SNat (li_num_yielded it))],
             {| li_root := r; li_cached_item := li_cached_item it; li_cached_sd := None;
                li_num_yielded := li_num_yielded it |})
  end.

Definition li_next (p : pipe) (it : li) : outcome * li :=
  match li_cached_item it with
  | Some x => (OItem x, {| li_root := li_root it; li_cached_item := None; li_cached_sd := None;
                           li_num_yielded := li_num_yielded it |})
  | None =>
      match node_next p (li_root it) with
      | (OItem x, r) => (OItem x, {| li_root := r; li_cached_item := None; li_cached_sd := li_cached_sd it;
                                     li_num_yielded := S (li_num_yielded it) |})
      | (o, r) => (o, {| li_root := r; li_cached_item := None; li_cached_sd := li_cached_sd it;
                         li_num_yielded := li_num_yielded it |})
      end
  end.

Definition li_has_next (p : pipe) (it : li) : bool * li :=
  match li_cached_item it with
  | Some _ => (true, it)
  | None =>
      let '(c, it1) := li_get_state p it in
      let it2 := {| li_root := li_root it1; li_cached_item := None; li_cached_sd := Some c;
                    li_num_yielded := li_num_yielded it1 |} in
      match li_next p it2 with
      | (OItem x, it3) => (true, {| li_root := li_root it3; li_cached_item := Some x; li_cached_sd := li_cached_sd it3;
                                    li_num_yielded := li_num_yielded it3 |})
      | (_, it3) => (false, it3)
      end
  end.

Record loader := {
  ld_it : option li;
  ld_iter_for_sd : bool;
  ld_next_sd : option sd }.

Definition ld_new : loader := {| ld_it := None; ld_iter_for_sd := false; ld_next_sd := None |}.
Definition li_new : li := {| li_root := RUninit; li_cached_item := None; li_cached_sd := None; li_num_yielded := 0 |}.

Definition ld_iter (p : pipe) (restart : bool) (l : loader) : loader :=
  let fresh := match ld_it l with None => true | Some _ => false end in
  let it := match ld_it l with None => li_new | Some it => it end in
  if negb fresh && ld_iter_for_sd l then {| ld_it := Some it; ld_iter_for_sd := false; ld_next_sd := ld_next_sd l |}
  else
    match ld_next_sd l with
    | Some s =>
        let it1 := li_reset p it (Some s) in
        let it2 := if restart then
                     let '(h, it1') := li_has_next p it1 in if h then it1' else li_reset p it1' None
                   else it1 in
        {| ld_it := Some it2; ld_iter_for_sd := ld_iter_for_sd l; ld_next_sd := None |}
    | None => {| ld_it := Some (li_reset p it None); ld_iter_for_sd := ld_iter_for_sd l; ld_next_sd := None |}
    end.

Definition ld_load (l : loader) (s : sd) : loader :=
  {| ld_it := ld_it l; ld_iter_for_sd := false; ld_next_sd := Some s |}.

(* BaseNode.state_dict on the LoaderIterator: lazily reset(None) when it was never reset *)
Definition ld_state_dict (p : pipe) (restart : bool) (l : loader) : sd * loader :=
  let l1 := match ld_it l with
            | None => let l' := ld_iter p restart l in
                      {| ld_it := ld_it l'; ld_iter_for_sd := true; ld_next_sd := ld_next_sd l' |}
            | Some _ => l
            end in
  match ld_it l1 with
  | Some it => let '(c, it') := li_get_state p it in
               (c, {| ld_it := Some it'; ld_iter_for_sd := ld_iter_for_sd l1; ld_next_sd := ld_next_sd l1 |})
  | None => (SNone, l1)
  end.

(* next(it) on the iterator object handed out by iter(loader) (always the same object) *)
Definition ld_next (p : pipe) (l : loader) : outcome * loader :=
  match ld_it l with
  | Some it => let '(o, it') := li_next p it in
               (o, {| ld_it := Some it'; ld_iter_for_sd := ld_iter_for_sd l; ld_next_sd := ld_next_sd l |})
  | None => (OErr "no iterator", l)
  end.

(* ------------------------------------------------------------------ *)
(* the sequential reference semantics (C04): plain list functions       *)
Fixpoint chunk_items (fuel n : nat) (drop : bool) (xs : list item) : list item :=
  match fuel with
  | 0 => []
  | S f => match xs with
           | [] => []
           | _ => if length xs <? n then (if drop then [] else [IList xs])
                  else IList (firstn n xs) :: chunk_items f n drop (skipn n xs)
           end
  end.

Fixpoint sem (p : pipe) (epoch : nat) : list item :=
  match p with
  | PSrc xs _ => xs
  | PSampler orders => epoch_order orders epoch
  | PMap f q | PParMap f _ q => map (apply_fn f) (sem q epoch)
  | PPrefetch _ q => sem q epoch
  | PBatch n d q => chunk_items (S (length (sem q epoch))) n d (sem q epoch)
  | PUnbatch q => flat_map batch_items (sem q epoch)
  | PFilter pr q => filter (apply_pred pr) (sem q epoch)
  end.

(* run a node until it stops *)
Fixpoint node_run (p : pipe) (fuel : nat) (t : rt) : list item * rt :=
  match fuel with
  | 0 => ([], t)
  | S f => match node_next p t with
           | (OItem x, t') => let '(l, t'') := node_run p f t' in (x :: l, t'')
           | (_, t') => ([], t')
           end
  end.
