(* SdlProcs.v — the worker-process table of a StatefulDataLoader across histories of iter() / exhaustion / dropping the
   iterator / state_dict() / load_state_dict(), for non-persistent and persistent workers (C17, loader side).
   Source: torchdata/stateful_dataloader/stateful_dataloader.py: StatefulDataLoader.{__iter__,state_dict,load_state_dict,
   _get_iterator}, _StatefulMultiProcessingDataLoaderIter.{__init__,_reset,_next_data (shutdown at exhaustion),
   _shutdown_workers,__del__}.
   An iterator object ("generation") owns W worker processes from its construction until its workers are shut down:
   at exhaustion (non-persistent) or when the object is dropped by both the loader and the user (__del__).
   Model and proofs (small, stdlib only). *)
From PD Require Import Base.
From Coq Require Import List Arith Bool Lia.
Import ListNotations.
Open Scope nat_scope.

Inductive pop := PIter | PExhaust | PDrop | PState | PLoad.

Record ptab := {
  p_next : nat;                 (* next fresh generation id *)
  p_loader : option nat;        (* generation referenced by StatefulDataLoader._iterator *)
  p_user : option nat;          (* generation referenced by the user's variable `it` *)
  p_finished : list nat;        (* generations whose current epoch is exhausted (_finished) *)
  p_shut : list nat;            (* generations whose workers have been shut down *)
  p_flag : bool                 (* _initial_iter_for_state_dict *)
}.

Definition mem (x : nat) (l : list nat) : bool := existsb (Nat.eqb x) l.
Definition referenced (t : ptab) (g : nat) : bool :=
  match p_loader t with Some a => a =? g | None => false end || match p_user t with Some a => a =? g | None => false end.
(* a generation's workers are alive iff it was created, is still referenced, and has not been shut down *)
Definition alive (t : ptab) (g : nat) : bool := (g <? p_next t) && referenced t g && negb (mem g (p_shut t)).
Definition live_gens (t : ptab) : list nat := filter (alive t) (seq 0 (p_next t)).

Definition fresh (t : ptab) : nat * ptab :=
  (p_next t, {| p_next := S (p_next t); p_loader := Some (p_next t); p_user := p_user t; p_finished := p_finished t;
                p_shut := p_shut t; p_flag := p_flag t |}).

Definition unfinish (g : nat) (l : list nat) : list nat := filter (fun x => negb (x =? g)) l.

Definition pstep (persistent : bool) (t : ptab) (o : pop) : ptab :=
  match o with
  | PIter =>
      (* which iterator does __iter__ hand out? *)
      let t1 :=
        if p_flag t then {| p_next := p_next t; p_loader := p_loader t; p_user := p_user t; p_finished := p_finished t;
                            p_shut := p_shut t; p_flag := false |}
        else if persistent then
          match p_loader t with
          | None => snd (fresh t)
          | Some g => (* _reset: same workers, new epoch *)
              {| p_next := p_next t; p_loader := Some g; p_user := p_user t; p_finished := unfinish g (p_finished t);
                 p_shut := p_shut t; p_flag := false |}
          end
        else snd (fresh t) in
      (* `if self._iterator._finished:` *)
      let t2 := match p_loader t1 with
                | Some g => if mem g (p_finished t1) then
                              if persistent then {| p_next := p_next t1; p_loader := Some g; p_user := p_user t1;
                                                    p_finished := unfinish g (p_finished t1); p_shut := p_shut t1; p_flag := false |}
                              else snd (fresh t1)
                            else t1
                | None => t1
                end in
      {| p_next := p_next t2; p_loader := p_loader t2; p_user := p_loader t2; p_finished := p_finished t2;
         p_shut := p_shut t2; p_flag := p_flag t2 |}
  | PExhaust =>
      match p_user t with
      | None => t
      | Some g => {| p_next := p_next t; p_loader := p_loader t; p_user := p_user t; p_finished := g :: p_finished t;
                     p_shut := if persistent then p_shut t else g :: p_shut t; p_flag := p_flag t |}
      end
  | PDrop => {| p_next := p_next t; p_loader := p_loader t; p_user := None; p_finished := p_finished t; p_shut := p_shut t; p_flag := p_flag t |}
  | PState =>
      match p_loader t with
      | Some _ => t
      | None => let t1 := snd (fresh t) in
                {| p_next := p_next t1; p_loader := p_loader t1; p_user := p_user t1; p_finished := p_finished t1;
                   p_shut := p_shut t1; p_flag := true |}
      end
  | PLoad => {| p_next := p_next t; p_loader := None; p_user := p_user t; p_finished := p_finished t; p_shut := p_shut t; p_flag := false |}
  end.

Definition pinit : ptab := {| p_next := 0; p_loader := None; p_user := None; p_finished := []; p_shut := []; p_flag := false |}.
Definition prun (persistent : bool) (ops : list pop) : ptab := fold_left (pstep persistent) ops pinit.

(* census after every prefix of the history: the live generations *)
Fixpoint census (persistent : bool) (t : ptab) (ops : list pop) : list (list nat) :=
  match ops with
  | [] => []
  | o :: rest => let t' := pstep persistent t o in live_gens t' :: census persistent t' rest
  end.

(* observation for the correspondence check: generations renumbered densely in order of first appearance in the census
   (the harness numbers the real pid sets the same way) *)
Fixpoint assoc (g : nat) (m : list (nat * nat)) : option nat :=
  match m with [] => None | (k, v) :: t => if k =? g then Some v else assoc g t end.
Fixpoint renum_one (l : list nat) (m : list (nat * nat)) : list nat * list (nat * nat) :=
  match l with
  | [] => ([], m)
  | g :: t => match assoc g m with
              | Some v => let '(r, m') := renum_one t m in (v :: r, m')
              | None => let v := length m in let '(r, m') := renum_one t (m ++ [(g, v)]) in (v :: r, m')
              end
  end.
Fixpoint renumber (ls : list (list nat)) (m : list (nat * nat)) : list (list nat) :=
  match ls with
  | [] => []
  | l :: t => let '(r, m') := renum_one l m in r :: renumber t m'
  end.
Definition census_obs (persistent : bool) (ops : list pop) : obs :=
  OL (map (fun l => OL (map onat l)) (renumber (census persistent pinit ops) [])).

(* ------------------------------------------------------------------------------------------------------------ *)
(* Theorems *)

Lemma live_gens_referenced t g : In g (live_gens t) -> referenced t g = true.
Proof.
  unfold live_gens. rewrite filter_In. intros [_ H]. unfold alive in H.
  apply andb_true_iff in H as [H _]. apply andb_true_iff in H as [_ H]. exact H.
Qed.

Lemma NoDup_live t : NoDup (live_gens t).
Proof. unfold live_gens. apply NoDup_filter, seq_NoDup. Qed.

(* no accumulation: at most two generations own live workers — the one the loader holds and the one the user holds *)
Theorem live_at_most_two persistent ops : length (live_gens (prun persistent ops)) <= 2.
Proof.
  set (t := prun persistent ops).
  assert (incl (live_gens t) (match p_loader t with Some a => [a] | None => [] end ++ match p_user t with Some a => [a] | None => [] end)) as Hincl.
  { intros g Hg. apply live_gens_referenced in Hg. unfold referenced in Hg. apply orb_true_iff in Hg as [H|H].
    - destruct (p_loader t) as [a|]; [|discriminate]. apply Nat.eqb_eq in H. subst. apply in_or_app. left. left. reflexivity.
    - destruct (p_user t) as [a|]; [|discriminate]. apply Nat.eqb_eq in H. subst. apply in_or_app. right. left. reflexivity. }
  pose proof (NoDup_incl_length (NoDup_live t) Hincl) as Hlen.
  rewrite app_length in Hlen. destruct (p_loader t), (p_user t); simpl in Hlen; lia.
Qed.

(* once the user has dropped its iterator and the loader holds none (after load_state_dict, or never iterated), nothing is alive *)
Theorem unreferenced_none_alive persistent ops :
  let t := prun persistent ops in p_loader t = None -> p_user t = None -> live_gens t = [].
Proof.
  intros t Hl Hu. destruct (live_gens t) as [|g l] eqn:E; [reflexivity|].
  assert (In g (live_gens t)) as Hin by (rewrite E; left; reflexivity).
  apply live_gens_referenced in Hin. unfold referenced in Hin. rewrite Hl, Hu in Hin. discriminate.
Qed.

(* non-persistent: exhausting the epoch shuts the workers down at once — the user's generation is not alive after PExhaust *)
Theorem exhaust_releases ops :
  let t := pstep false (prun false ops) PExhaust in
  forall g, p_user t = Some g -> alive t g = false.
Proof.
  intros t g Hu. subst t. unfold pstep in *. destruct (p_user (prun false ops)) as [u|] eqn:E.
  - cbn in Hu. try rewrite E in Hu. injection Hu as <-. unfold alive, mem. cbn. rewrite Nat.eqb_refl. cbn.
    rewrite andb_false_r. reflexivity.
  - try rewrite E in Hu. discriminate.
Qed.

(* persistent workers are reused: iter() on a loader that holds an iterator (and no pending state_dict flag juggling) hands out the same generation *)
Theorem persistent_reuse t g :
  p_loader t = Some g -> p_loader (pstep true t PIter) = Some g /\ p_next (pstep true t PIter) = p_next t.
Proof.
  intros H. unfold pstep. destruct (p_flag t); cbn; rewrite ?H; cbn;
    repeat match goal with |- context [if ?b then _ else _] => destruct b; cbn end; rewrite ?H; auto.
Qed.

