(* Properties_C06.v — C06: nodes checkpoints track the consumer position under every thread interleaving.
   Model: ConcModel.v; proofs: ConcInv.v. *)
From PD Require Import Base ConcModel ConcObs ConcInv ConcLive ConcOwner ConcSnap ConcPM.
Open Scope nat_scope.

(* FULL statement (target): in every reachable state of every schedule in which no join() of an old read thread timed
   out, for the current generation of a Prefetcher or an in_order ParallelMapper: snapshot + steps_since_snapshot is
   exactly the source position the consumer has reached (base + items received), the snapshot never being ahead. *)
Definition C06_tracks_consumer_statement : Prop :=
  forall c script sched g,
    (k_pm c = false \/ k_inorder c = true) ->
    s_overlap (run c sched (init script)) = false ->
    cur (run c sched (init script)) = Some g ->
    g_snap g + g_steps g = g_base g + g_recv g.

(* PROVED for the Prefetcher (_SingleThreadedMapper), any prefetch_factor, any snapshot_frequency, any source (failing or
   not), any consumer script of next / state_dict / reset / reset(loaded state) / shutdown: along EVERY schedule in which
   the join() on the old read thread never times out while it is alive, in EVERY reachable state, what state_dict() of the
   current iterator would return satisfies snapshot + steps_since_snapshot = start position + items received — exactly
   the consumer's position, never the reader's — and the snapshot is never ahead of the consumer.  (Invariant PFinv in
   ConcSnap.v: reader position, store contents position = base + version, consecutive queue indices, what the consumer
   holds; lifted over resets with ConcOwner's single-ownership invariant.) *)
Theorem C06_prefetcher_tracks_consumer : forall c, k_pm c = false -> forall script sched,
  jt_free c (init script) sched = true ->
  forall g, cur (run c sched (init script)) = Some g ->
  g_snap g + g_steps g = g_base g + g_recv g /\ g_snap g <= g_base g + g_recv g.
Proof. exact prefetcher_tracks_consumer. Qed.
Print Assumptions C06_prefetcher_tracks_consumer.

(* PROVED for ParallelMapper(in_order=True, method="thread"), any num_workers, max_concurrent, snapshot_frequency, map_fn
   (raising or not), source (failing or not), consumer script: along EVERY interleaving of the read thread, the worker
   threads, the sort thread and the consumer (primitive granularity, timeouts included; same exclusion D10), in EVERY
   reachable state, snapshot + steps_since_snapshot = start position + entries consumed.  (Invariant PMinv in ConcPM.v:
   every index is in flight at most once and only inside [cur_idx, next index), payload at index i = map_fn(source[base+i]),
   the sorter's output carries consecutive indices, store contents position = base + version.)  With the Prefetcher
   theorem this is C06_tracks_consumer_statement on every jt_free schedule. *)
Theorem C06_parallel_mapper_tracks_consumer : forall c, k_pm c = true -> k_inorder c = true -> forall script sched,
  jt_free c (init script) sched = true ->
  forall g, cur (run c sched (init script)) = Some g ->
  g_snap g + g_steps g = g_base g + g_recv g /\ g_snap g <= g_base g + g_recv g.
Proof.
  intros c Hpm Hio script sched Hj g Eg.
  pose proof (proj2 (parallel_mapper_is_ordered_map c Hpm Hio script sched Hj g Eg)) as HM. split; [exact HM | lia].
Qed.
Print Assumptions C06_parallel_mapper_tracks_consumer.

(* the statement above, for both node kinds, on every schedule without a reader-join timeout *)
Theorem C06_tracks_consumer_jt_free : forall c script sched g,
  (k_pm c = false \/ k_inorder c = true) ->
  jt_free c (init script) sched = true ->
  cur (run c sched (init script)) = Some g ->
  g_snap g + g_steps g = g_base g + g_recv g.
Proof.
  intros c script sched g Hk Hj Eg. destruct (k_pm c) eqn:Epm.
  - destruct Hk as [Hk|Hk]; [discriminate|]. exact (proj1 (C06_parallel_mapper_tracks_consumer c Epm Hk script sched Hj g Eg)).
  - exact (proj1 (C06_prefetcher_tracks_consumer c Epm script sched Hj g Eg)).
Qed.
Print Assumptions C06_tracks_consumer_jt_free.

(* the snapshot store's hand-off discipline, for every store content *)
(* (1) a snapshot is adopted only for exactly the received item's version *)
Theorem C06_pop_version_exact : forall v l p, fst (pop_version v l) = Some p -> In (v, p) l.
Proof. exact pop_version_exact. Qed.
Print Assumptions C06_pop_version_exact.

(* (2) what is discarded is a prefix of versions <= v; nothing else is touched *)
Theorem C06_pop_version_discards_only_older : forall v l,
  exists k, snd (pop_version v l) = skipn k l /\ Forall (fun e => fst e <= v) (firstn k l).
Proof. exact pop_version_rest. Qed.
Print Assumptions C06_pop_version_discards_only_older.

(* (3) in a store with strictly increasing versions, every snapshot left behind is newer than the received item *)
Theorem C06_pop_version_leaves_newer : forall v l, inc l -> Forall (fun e : nat * nat => v < fst e) (snd (pop_version v l)).
Proof. exact pop_version_leaves_newer. Qed.
Print Assumptions C06_pop_version_leaves_newer.

(* non-vacuity / regression example: ParallelMapper, 2 workers, snapshot_frequency 2, consumer takes 3 of 5 items under a
   round-robin schedule: the state is (snapshot = position 2, 1 step), i.e. exactly position 3, although the reader is ahead *)
Definition rr (c : cfg) (n : nat) : list (tid * mode) :=
  concat (repeat ([(TC, Go); (TG 0 GR, Go); (TG 0 (GW 0), Go); (TG 0 (GW 1), Go); (TG 0 GS, Go)]) n).
Definition ex_cfg : cfg :=
  {| k_pm := true; k_nw := 2; k_inorder := true; k_mc := None; k_sf := 2; k_xs := [10; 11; 12; 13; 14]; k_err := None; k_f := udf 100 [] |}.
Example C06_example :
  let s := run ex_cfg (rr ex_cfg 60) (init [KReset None; KNext; KNext; KNext; KState; KNext]) in
  firstn 5 (s_obs s) = [ObsReset; ObsItem 110; ObsItem 111; ObsItem 112; ObsState 2 1] /\ 4 <= s_pos s.
Proof. vm_compute. split; [reflexivity | repeat constructor]. Qed.

(* the hypotheses of the ParallelMapper theorem are met by that run: no reader-join timeout, a current generation that has
   consumed 3 entries while the reader is ahead *)
Example C06_pm_example_hyps :
  let sch := rr ex_cfg 60 in let sc := [KReset None; KNext; KNext; KNext; KState; KNext] in
  jt_free ex_cfg (init sc) sch = true /\
  match cur (run ex_cfg sch (init sc)) with Some g => g_recv g = 4 /\ g_base g = 0 | None => False end.
Proof. vm_compute. split; [reflexivity | split; reflexivity]. Qed.
