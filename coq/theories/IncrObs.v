(* IncrObs.v — observation functions for the C07 correspondence run. *)
From PD Require Import Base IncrModel.

Fixpoint ins_sorted (k : nat) (o : obs) (l : list (nat * obs)) : list (nat * obs) :=
  match l with
  | [] => [(k, o)]
  | (k', o') :: r => if Nat.leb k k' then (k, o) :: l else (k', o') :: ins_sorted k o r
  end.
Definition sort_kv (l : list (nat * obs)) : list (nat * obs) :=
  fold_right (fun kv acc => ins_sorted (fst kv) (snd kv) acc) [] l.

(* canonical encoding of a tree: dict entries sorted by key (Python == ignores order) *)
Fixpoint obs_of_value (v : value) : obs :=
  match v with
  | VLeaf t => OL [OS "L"; onat t]
  | VDict kvs =>
      OL [OS "D"; OL (map (fun kv => OL [onat (fst kv); snd kv])
                        (sort_kv ((fix go (l : list (nat * value)) : list (nat * obs) :=
                                     match l with [] => [] | (k, x) :: r => (k, obs_of_value x) :: go r end) kvs)))]
  end.

Definition obs_of_state (s : option (value * option (bool * value))) : obs :=
  match s with
  | None => OS "error"
  | Some (d, None) => OL [obs_of_value d; ON]
  | Some (d, Some (e, i)) => OL [obs_of_value d; OL [OB e; obs_of_value i]]
  end.

(* worker generates a delta for every reported state; main applies it; main's get_state after each *)
Fixpoint c07_run (w m : iws) (steps : list wstate) : list obs :=
  match steps with
  | [] => []
  | st :: r =>
      let '(d, w') := iws_gen_delta w st in
      let m' := iws_apply_delta m d in
      obs_of_state (iws_get_state m') :: c07_run w' m' r
  end.
Definition c07_obs (init : option wstate) (steps : list wstate) : obs :=
  OL (obs_of_state (iws_get_state (iws_init init)) :: c07_run (iws_init init) (iws_init init) steps).

(* plain flatten/unflatten round trip on one tree *)
Definition c07_roundtrip (v : value) : obs :=
  match get_state (flatten v []) with Some u => obs_of_value u | None => OS "error" end.
