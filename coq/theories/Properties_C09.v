(* Properties_C09.v — C09: a dying DataLoader worker is reported promptly, never hung on or papered over.
   Model: SdlFault.v (SdlModel's _next_data with the fault alphabet Arrive / Die w / Timeout of the wait loop).
   PARTIAL by nature: the wall-clock bound of the poll (MP_STATUS_CHECK_INTERVAL), SIGCHLD delivery, is_alive() and the
   state of the pipes after SIGKILL are runtime behaviour; the model assumes a dead worker answers nothing further and
   that the poll's is_alive() test is accurate.  The real-SIGKILL correspondence run covers the runtime side. *)
From PD Require Import Base SdlModel SdlFault SdlProofs SdlMapProofs SdlIterRef SdlIterProofs SdlIterResume.
Open Scope nat_scope.

(* never ends the epoch early as if complete: for every configuration, every state, every fault schedule (deaths and
   poll expiries anywhere), if next() raises StopIteration then every task ever sent has been accounted for —
   yielded, or skipped because its worker RETIRED by announcing its own exhaustion.  A worker that merely died keeps
   workers_status true, so its unanswered task blocks the end of the epoch. *)
Theorem C09_stop_only_when_all_accounted : forall fuel c s crashed sched s' cr' sched',
  next_data_f fuel c s crashed sched = (FO OStop, s', cr', sched') -> m_send s' <= m_rcvd s'.
Proof. exact stop_only_when_all_accounted. Qed.
Print Assumptions C09_stop_only_when_all_accounted.

(* reported at the next poll: when main waits for the task at rcvd_idx and a worker that is still expected to work is
   dead, the next expiry of the poll raises the worker-death error (with exactly the dead expected workers) *)
Theorem C09_timeout_reports_dead_worker : forall f c s crashed rest s0,
  skip_retired (S (m_send s)) s = (true, s0) ->
  (forall w x, info_get (m_info s0) (m_rcvd s0) <> Some (w, Some x)) ->
  m_outst s0 <> 0 ->
  crashed_expected s0 crashed <> [] ->
  exists s', next_data_f (S f) c s crashed (FTimeout :: rest) = (FWorkerDied (crashed_expected s0 crashed), s', crashed, rest).
Proof. exact timeout_reports_dead_worker. Qed.
Print Assumptions C09_timeout_reports_dead_worker.

(* the task main waits for always belongs to a worker that is still expected to work: so if THAT worker dies, the
   premise of the previous theorem holds *)
Theorem C09_awaited_worker_is_expected : forall fuel s s',
  skip_retired fuel s = (true, s') ->
  exists w r, info_get (m_info s') (m_rcvd s') = Some (w, r) /\
              ((exists x, r = Some x) \/ nth w (m_status s') false = true) /\ m_status s' = m_status s.
Proof. exact skip_retired_found. Qed.
Print Assumptions C09_awaited_worker_is_expected.

(* non-vacuity: 2 workers, 6 map-style batches of one index; worker 1 dies after two arrivals; the poll reports it,
   after batch [0] (worker 0's) was delivered intact *)
Example C09_example :
  fault_obs_short {| c_kind := KMap; c_W := 2; c_P := 2; c_I := 1; c_bs := 1; c_drop := false; c_shards := [];
                     c_batches := [[0]; [1]; [2]; [3]; [4]; [5]]; c_bad := []; c_stateful := true; c_rewind := false |}
                  4 [FArrive 0; FDie 1; FArrive 0; FTimeout]
  = OL [OL [OS "batch"; OL [OZ 0]]; OL [OS "worker_died"]].
Proof. vm_compute. reflexivity. Qed.

(* ---- never yields wrong data, never ends the epoch early (map-style datasets, snapshot interval <= 1 or no failing index) ----
   PROVED for EVERY fault schedule — any interleaving of worker deaths, poll time-outs and arrivals in any order, from a
   fresh iterator, any num_workers / prefetch_factor / batch sampler output: the outcomes of the successive next() calls are
   the sampler's batches from the first one on (an error outcome standing for a failing batch), with no gap, nothing out of
   place, nothing repeated, until ONE closing outcome — the worker-died error (or, in the model, the poll going on for ever /
   fuel) — or StopIteration, and StopIteration only after the LAST batch.  No assertion of the iterator can fire.
   (A death only removes future arrivals: the invariant InvG of the map-style proof survives every fault event.) *)
From PD Require SdlMapProofs SdlFaultMap.
Theorem C09_fault_run_never_wrong : forall c, c_kind c = KMap -> 0 < c_W c -> 0 < c_P c -> c_I c <= 1 \/ c_bad c = [] ->
  forall m cr evs, exists j tail,
    run_f m c (sdl_fresh c) cr evs = map (fun i => FO (SdlMapProofs.want c i)) (seq 0 j) ++ tail /\ j <= SdlMapProofs.LL c /\
    (tail = [] \/ exists o, tail = [o] /\ (SdlFaultMap.benign o \/ (o = FO OStop /\ j = SdlMapProofs.LL c))).
Proof. exact SdlFaultMap.fresh_fault_run_never_wrong. Qed.
Print Assumptions C09_fault_run_never_wrong.

(* ---- a checkpoint taken before the death still resumes correctly (map-style, no failing index) ----
   Every next() that succeeds under faults leaves the iterator in a GOOD state (the states from which state_dict() resumes
   exactly, C01), so the checkpoint taken after any delivered batch — however many workers have died meanwhile, whatever the
   arrival order was — loaded into a NEW iterator (fresh processes), yields exactly the remaining batches, under every
   arrival schedule of the resumed run *)
Theorem C09_fault_step_keeps_good : forall c, c_kind c = KMap -> 0 < c_W c -> 0 < c_P c -> c_bad c = [] ->
  forall off c0 k s cr evs o s' cr' evs', SdlMapProofs.Good c off c0 k s -> k < SdlMapProofs.L c off ->
  sdl_next_f c s cr evs = (o, s', cr', evs') ->
  (o = FO (SdlMapProofs.want c (off + k)) /\ SdlMapProofs.Good c off c0 (S k) s') \/ SdlFaultMap.benign o.
Proof. exact SdlFaultMap.fault_step_keeps_good. Qed.
Print Assumptions C09_fault_step_keeps_good.

Theorem C09_checkpoint_after_faulty_step_resumes_exactly : forall c, c_kind c = KMap -> 0 < c_W c -> 0 < c_P c -> c_bad c = [] ->
  forall off c0 k s cr evs o s' cr' evs' sched, SdlMapProofs.Good c off c0 k s -> k < SdlMapProofs.L c off ->
  sdl_next_f c s cr evs = (o, s', cr', evs') -> o = FO (SdlMapProofs.want c (off + k)) ->
  let '(sr, sched') := sdl_resume c (state_dict s') sched in
  SdlMapProofs.outcomes c (S (SdlMapProofs.LL c - (off + S k))) sr sched' =
  map (SdlMapProofs.want c) (seq (off + S k) (SdlMapProofs.LL c - (off + S k))) ++ [OStop].
Proof. exact SdlFaultMap.checkpoint_after_faulty_step_resumes_exactly. Qed.
Print Assumptions C09_checkpoint_after_faulty_step_resumes_exactly.

(* the worker-died error is never a false alarm: for every configuration, state and fault schedule, it names only workers
   that have really died *)
Theorem C09_died_report_is_truthful : forall fuel c s cr evs ws s' cr' evs',
  next_data_f fuel c s cr evs = (FWorkerDied ws, s', cr', evs') -> forall w, In w ws -> nth w cr' false = true.
Proof. exact SdlFaultMap.died_report_is_truthful. Qed.
Print Assumptions C09_died_report_is_truthful.

(* ITERABLE datasets, PROVED for every configuration (any num_workers, prefetch_factor, snapshot interval, shards, batch_size,
   drop_last) and EVERY fault schedule — worker deaths at any moment (idle, mid-task, before or after their end-of-shard notice),
   poll time-outs, arrivals in any order: the batches a fresh epoch hands out are a PREFIX of the column-major interleave, in order,
   each once; the history ends with StopIteration only after ALL of them, or with the worker-died error (or the model's fuel), or has
   not ended yet.  Never a wrong, repeated or misplaced batch, never an early StopIteration, never an assertion, never an endless
   wait with nobody left to wait for (the deadlock outcome of the model is shown unreachable: the awaited worker is alive in the
   main process's books, so if it crashed the time-out reports it).  SdlIterProofs.v: next_data_f_iter, run_f_iter. *)
Theorem C09_iter_fault_run_never_wrong : forall c, c_kind c = KIter -> 0 < c_W c -> 0 < c_P c ->
  forall m cr evs,
  exists k tail, k <= length (reference c) /\
    run_f m c (sdl_fresh c) cr evs = map (fun b => FO (OBatch b)) (firstn k (reference c)) ++ tail /\
    (tail = [] \/ exists o, tail = [o] /\ (benignF o \/ (o = FO OStop /\ k = length (reference c)))).
Proof. exact iter_fault_run_never_wrong. Qed.
Print Assumptions C09_iter_fault_run_never_wrong.

(* iterable datasets with their own state, default snapshot interval: a next() under ANY fault schedule, from any good state
   (Good1: the invariants of SdlIterProofs.v plus a snapshot with exact worker entries; the fresh iterator is good, and good
   states are closed under next and under checkpoint+resume), either delivers the batch that is due and leaves a good state, or
   reports StopIteration when nothing is left, or raises the worker-died error ... *)
Theorem C09_iter_fault_step_keeps_good : forall c, c_kind c = KIter -> 0 < c_W c -> 0 < c_P c -> c_I c = 1 ->
  forall rest s cr evs fuel, Good1 c rest s ->
  exists o s' cr' evs', next_data_f fuel c s cr evs = (o, s', cr', evs') /\
    (benignF o \/ match rest with [] => o = FO OStop | b :: rest' => o = FO (OBatch b) /\ Good1 c rest' s' end).
Proof. exact iter_fault_step_good. Qed.
Print Assumptions C09_iter_fault_step_keeps_good.

Theorem C09_iter_fresh_is_good : forall c, c_kind c = KIter -> 0 < c_W c -> 0 < c_P c -> c_I c = 1 -> Good1 c (reference c) (sdl_fresh c).
Proof. exact iter_fresh_good. Qed.
Print Assumptions C09_iter_fresh_is_good.

(* ... and the checkpoint taken after ANY batch delivered under ANY fault schedule resumes, in a new iterator and under every
   arrival schedule, to exactly the remaining stream: a worker death later on does not spoil earlier checkpoints *)
Theorem C09_iter_checkpoint_after_faulty_step_resumes_exactly : forall c, c_kind c = KIter -> 0 < c_W c -> 0 < c_P c ->
  c_stateful c = true -> c_I c = 1 ->
  forall b rest s cr evs fuel s' cr' evs' sched,
  Good1 c (b :: rest) s -> next_data_f fuel c s cr evs = (FO (OBatch b), s', cr', evs') ->
  let '(sr, sched') := sdl_resume c (state_dict s') sched in
  outcomes c (S (length rest)) sr sched' = map OBatch rest ++ [OStop].
Proof. exact iter_checkpoint_after_faulty_step_resumes. Qed.
Print Assumptions C09_iter_checkpoint_after_faulty_step_resumes_exactly.

(* the same for iterable datasets WITHOUT a state of their own (a resume takes the fast-forward path: fresh workers, the batches given so
   far replayed). FreshAt c p s: s is an iterator over fresh workers p batches into the epoch, its snapshot taken at step p.  The fresh
   iterator is FreshAt 0; a next() under ANY fault schedule delivers the batch that is due and leaves FreshAt (p+1), or reports
   StopIteration when nothing is left, or raises the worker-died error; and the checkpoint taken after any delivered batch resumes
   exactly, under every arrival schedule of the replay and of the resumed run *)
Theorem C09_iter_fast_forward_fresh : forall c, c_kind c = KIter -> 0 < c_W c -> 0 < c_P c -> c_I c = 1 -> FreshAt c 0 (sdl_fresh c).
Proof. exact fresh_at0. Qed.
Print Assumptions C09_iter_fast_forward_fresh.

Theorem C09_iter_fast_forward_fault_step : forall c, c_kind c = KIter -> 0 < c_W c -> 0 < c_P c -> c_I c = 1 ->
  forall p s cr evs fuel, FreshAt c p s ->
  exists o s' cr' evs', next_data_f fuel c s cr evs = (o, s', cr', evs') /\
    (benignF o \/ match skipn p (reference c) with [] => o = FO OStop | b :: _ => o = FO (OBatch b) /\ FreshAt c (S p) s' end).
Proof. exact ff_fault_step. Qed.
Print Assumptions C09_iter_fast_forward_fault_step.

Theorem C09_iter_fast_forward_checkpoint_after_faulty_step_resumes_exactly : forall c, c_kind c = KIter -> 0 < c_W c -> 0 < c_P c ->
  c_stateful c = false -> c_I c = 1 ->
  forall p b s cr evs fuel s' cr' evs' sched,
  FreshAt c p s -> next_data_f fuel c s cr evs = (FO (OBatch b), s', cr', evs') ->
  let '(sr, sched') := sdl_resume c (state_dict s') sched in
  outcomes c (S (length (reference c) - S p)) sr sched' = map OBatch (skipn (S p) (reference c)) ++ [OStop].
Proof. exact ff_checkpoint_after_faulty_step_resumes. Qed.
Print Assumptions C09_iter_fast_forward_checkpoint_after_faulty_step_resumes_exactly.
