(* Properties_C09.v — C09: a dying DataLoader worker is reported promptly, never hung on or papered over.
   Model: SdlFault.v (SdlModel's _next_data with the fault alphabet Arrive / Die w / Timeout of the wait loop).
   PARTIAL by nature: the wall-clock bound of the poll (MP_STATUS_CHECK_INTERVAL), SIGCHLD delivery, is_alive() and the
   state of the pipes after SIGKILL are runtime behaviour; the model assumes a dead worker answers nothing further and
   that the poll's is_alive() test is accurate.  The real-SIGKILL correspondence run covers the runtime side. *)
From PD Require Import Base SdlModel SdlFault.
Open Scope nat_scope.

(* never ends the epoch early as if complete: for every configuration, every state, every fault schedule (deaths and
   poll expiries anywhere), if next() raises StopIteration then every task ever sent has been accounted for —
   yielded, or skipped because its worker RETIRED by announcing its own exhaustion.  A worker that merely died keeps
   workers_status true, so its unanswered task blocks the end of the epoch. *)
Theorem C09_stop_only_when_all_accounted : forall fuel c s crashed sched s' cr' sched',
  next_data_f fuel c s crashed sched = (FO OStop, s', cr', sched') -> m_send s' <= m_rcvd s'.
Proof. exact stop_only_when_all_accounted. Qed.
Print Assumptions C09_stop_only_when_all_accounted.

(* reported at the next poll: when main waits for the task at rcvd_idx and a worker that is still expected to work is
   dead, the next expiry of the poll raises the worker-death error (with exactly the dead expected workers) *)
Theorem C09_timeout_reports_dead_worker : forall f c s crashed rest s0,
  skip_retired (S (m_send s)) s = (true, s0) ->
  (forall w x, info_get (m_info s0) (m_rcvd s0) <> Some (w, Some x)) ->
  m_outst s0 <> 0 ->
  crashed_expected s0 crashed <> [] ->
  exists s', next_data_f (S f) c s crashed (FTimeout :: rest) = (FWorkerDied (crashed_expected s0 crashed), s', crashed, rest).
Proof. exact timeout_reports_dead_worker. Qed.
Print Assumptions C09_timeout_reports_dead_worker.

(* the task main waits for always belongs to a worker that is still expected to work: so if THAT worker dies, the
   premise of the previous theorem holds *)
Theorem C09_awaited_worker_is_expected : forall fuel s s',
  skip_retired fuel s = (true, s') ->
  exists w r, info_get (m_info s') (m_rcvd s') = Some (w, r) /\
              ((exists x, r = Some x) \/ nth w (m_status s') false = true) /\ m_status s' = m_status s.
Proof. exact skip_retired_found. Qed.
Print Assumptions C09_awaited_worker_is_expected.

(* non-vacuity: 2 workers, 6 map-style batches of one index; worker 1 dies after two arrivals; the poll reports it,
   after batch [0] (worker 0's) was delivered intact *)
Example C09_example :
  fault_obs_short {| c_kind := KMap; c_W := 2; c_P := 2; c_I := 1; c_bs := 1; c_drop := false; c_shards := [];
                     c_batches := [[0]; [1]; [2]; [3]; [4]; [5]]; c_bad := []; c_stateful := true; c_rewind := false |}
                  4 [FArrive 0; FDie 1; FArrive 0; FTimeout]
  = OL [OL [OS "batch"; OL [OZ 0]]; OL [OS "worker_died"]].
Proof. vm_compute. reflexivity. Qed.
