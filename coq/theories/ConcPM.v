(* ConcPM.v — ParallelMapper(in_order=True, thread workers): what the consumer receives is map f over the source, in source
   order, each item once, and the state it would hand out denotes exactly its position — in EVERY reachable state of EVERY
   interleaving of reader, workers, sorter and consumer without a reader-join timeout (C04 / C06 at the interleaving level).
   The index discipline is kept as per-index COUNTING invariants (each index occurs at most once upstream of the sorter's
   output, and only in [cur_idx, next index)), so every step is a local arithmetic fact. *)
From Coq Require Import List Arith Bool Lia.
From RecordUpdate Require Import RecordUpdate.
From PD Require Import ConcModel ConcInv ConcLive ConcOwner ConcSnap.
Import ListNotations.
Open Scope nat_scope.

(* ---------------------------------------------------------------------------------------------------------- *)
(* counting occurrences of an index *)
Definition b2n (b : bool) : nat := if b then 1 else 0.
Fixpoint cnt (i : nat) (l : list nat) : nat := match l with [] => 0 | x :: t => b2n (x =? i) + cnt i t end.

Lemma cnt_app i l1 l2 : cnt i (l1 ++ l2) = cnt i l1 + cnt i l2.
Proof. induction l1 as [|x l1 IH]; cbn; [reflexivity | rewrite IH; lia]. Qed.

Lemma cnt_in i l : 1 <= cnt i l <-> In i l.
Proof.
  induction l as [|x l IH]; cbn; [split; [lia | tauto]|].
  destruct (Nat.eqb_spec x i); cbn; [split; auto; lia|]. rewrite IH. split; [auto | intros [H|H]; [congruence | exact H]].
Qed.

Lemma cnt_seq_le i a n : cnt i (seq a n) <= 1.
Proof.
  revert a. induction n as [|n IH]; intros a; cbn; [lia|]. destruct (Nat.eqb_spec a i); cbn; [|apply IH].
  assert (cnt i (seq (S a) n) = 0); [|lia]. destruct (cnt i (seq (S a) n)) eqn:E; [reflexivity|].
  assert (In i (seq (S a) n)) as H by (apply cnt_in; lia). apply in_seq in H. lia.
Qed.

(* what a worker holds *)
Definition widx (p : wpc) : list nat := match p with WPut _ i => [i] | _ => [] end.
Fixpoint wcnt (i : nat) (ws : list wpc) : nat := match ws with [] => 0 | p :: t => cnt i (widx p) + wcnt i t end.

Lemma wcnt_set_nth i w p ws old : nth_error ws w = Some old ->
  wcnt i (set_nth w p ws) + cnt i (widx old) = wcnt i ws + cnt i (widx p).
Proof.
  revert w. induction ws as [|a ws IH]; intros [|w] H; cbn in *; try discriminate.
  - injection H as ->. unfold set_nth. cbn. lia.
  - specialize (IH w H). unfold set_nth in *. cbn. lia.
Qed.

(* the sorter's buffer *)
Lemma buf_find_cnt i b : (exists p, buf_find i b = Some p) <-> 1 <= cnt i (map fst b).
Proof.
  induction b as [|[j p] b IH]; cbn; [split; [intros [p H]; discriminate | lia]|].
  destruct (Nat.eqb_spec j i); cbn; [split; [lia | eauto]|]. exact IH.
Qed.

Lemma buf_remove_cnt j b p i : buf_find j b = Some p -> cnt i (map fst (buf_remove j b)) + b2n (j =? i) = cnt i (map fst b).
Proof.
  induction b as [|[k q] b IH]; cbn; [discriminate|].
  destruct (Nat.eqb_spec k j) as [->|Hne]; intros H.
  - lia.
  - cbn. specialize (IH H). lia.
Qed.

Lemma buf_remove_in j b e : In e (buf_remove j b) -> In e b.
Proof.
  induction b as [|[k q] b IH]; cbn; [tauto|]. destruct (k =? j); [intros H; right; exact H|].
  intros [H|H]; [left; exact H | right; apply IH, H].
Qed.

Lemma buf_find_in j b p : buf_find j b = Some p -> In (j, p) b.
Proof.
  induction b as [|[k q] b IH]; cbn; [discriminate|]. destruct (Nat.eqb_spec k j) as [->|Hne]; intros H.
  - injection H as ->. left. reflexivity.
  - right. apply IH, H.
Qed.

(* ---------------------------------------------------------------------------------------------------------- *)
Section PM.
Variable c : cfg.
Hypothesis Hpm : k_pm c = true.
Hypothesis Hio : k_inorder c = true.

Definition mapped (p : payload) : payload :=
  match p with PItem x => match k_f c x with Some y => PItem y | None => PErr 1 end | _ => p end.
Definition mpay (pos : nat) : payload := mapped (spay c pos).
Definition isitem (pos : nat) : Prop := exists x, spay c pos = PItem x.

Lemma mpay_err pos e : mpay pos = PErr e -> (e = 0 /\ spay c pos = PErr 0) \/ (e = 1 /\ isitem pos).
Proof.
  unfold mpay, mapped, isitem. destruct (spay c pos) as [x| |e0] eqn:E.
  - destruct (k_f c x); intros H; [discriminate | injection H as <-; right; eauto].
  - discriminate.
  - intros H. injection H as ->. left. unfold spay in E.
    destruct (match k_err c with Some e1 => e1 =? pos | None => false end); [injection E as <-; auto|].
    destruct (nth_error (k_xs c) pos); discriminate.
Qed.

Lemma mpay_stop pos : mpay pos = PStop -> spay c pos = PStop.
Proof. unfold mpay, mapped. destruct (spay c pos) as [x| |e]; auto. destruct (k_f c x); discriminate. Qed.

Lemma mpay_item pos y : mpay pos = PItem y -> isitem pos.
Proof. unfold mpay, mapped, isitem. destruct (spay c pos) as [x| |e]; try discriminate. eauto. Qed.

Definition cntU (i : nat) (g : gen) : nat :=
  cnt i (map snd (g_q1 g)) + wcnt i (g_ws g) + cnt i (map snd (g_q2 g)) + cnt i (map fst (g_sbuf g)).
Definition hidx (p : spc) : list nat := match p with SPut _ i => [i] | SPutDup i => [i] | _ => [] end.
Definition rfinal (p : rpc) : bool := match p with RPut _ _ true | RDone => true | _ => false end.

(* reader side *)
Record RInv (g : gen) (pos : nat) : Prop := {
  r_pos : RPos g pos;
  r_store : forall v p, In (v, p) (g_store g) -> p = g_base g + v;
  r_pay : match g_r g with
          | RStore x i _ => PItem x = spay c (g_base g + i)
          | RPut p i _ => p = spay c (g_base g + i)
          | _ => True
          end;
  r_prefix : forall j, S j < g_ridx g -> isitem (g_base g + j);
  r_all : rfinal (g_r g) = false -> forall j, j < g_ridx g -> isitem (g_base g + j) }.

(* the flow between the reader and the consumer *)
Record FInv (g : gen) : Prop := {
  f_q1 : Forall (fun e => fst e = spay c (g_base g + snd e)) (g_q1 g);
  f_ws : Forall (fun w => match w with WPut p i => p = mpay (g_base g + i) | _ => True end) (g_ws g);
  f_q2 : Forall (fun e => fst e = mpay (g_base g + snd e)) (g_q2 g);
  f_buf : Forall (fun e => snd e = mpay (g_base g + fst e)) (g_sbuf g);
  f_s : match g_s g with SPut p i => p = mpay (g_base g + i) /\ i = g_scur g | SPutDup _ => False | _ => True end;
  f_q3 : Forall (fun e => fst e = mpay (g_base g + snd e)) (g_q3 g);
  f_q3idx : map snd (g_q3 g) = seq (g_taken g) (length (g_q3 g));
  f_scur : g_scur g = g_taken g + length (g_q3 g);
  f_cnt : forall i, cntU i g + cnt i (hidx (g_s g)) <= 1;
  f_bound : forall i, 1 <= cntU i g + cnt i (hidx (g_s g)) -> g_scur g <= i /\ i + rpend (g_r g) < g_ridx g;
  f_le : g_scur g + rpend (g_r g) <= g_ridx g }.

(* consumer side *)
Definition cheld (p : cpc) : nat := match p with CRel _ _ | CRelErr 1 _ => 1 | _ => 0 end.
Definition got (pos : nat) : list nat := match mpay pos with PItem y => [y] | _ => [] end.

Record CInv (g : gen) : Prop := {
  c_hold : forall i, ((exists x, g_c g = CRel x i) \/ (exists e, g_c g = CRelErr e i)) -> S i = g_taken g;
  c_pay : match g_c g with
          | CRel x i => PItem x = mpay (g_base g + i)
          | CRelErr e i => PErr e = mpay (g_base g + i)
          | CRelStop => g_term g = true
          | _ => True
          end;
  c_recv : g_term g = false -> g_recv g + cheld (g_c g) = g_taken g;
  c_live : cheld (g_c g) = 1 -> g_term g = false;
  c_term : g_term g = true -> g_taken g = g_ridx g /\ g_r g = RDone;
  c_items : g_items g = flat_map (fun k => got (g_base g + k)) (seq 0 (g_recv g));
  c_init : (g_c g = CInit \/ g_c g = CSleep) ->
           g_snap g = g_base g /\
           ((g_store g = [] /\ (g_r g = RStart \/ exists p, g_r g = RInitPut p)) \/ (exists rest, g_store g = (0, g_base g) :: rest));
  c_main : g_snap g + g_steps g = g_base g + g_recv g;
  c_src : forall k, k < g_recv g -> isitem (g_base g + k) }.

Definition PMinv (g : gen) (pos : nat) : Prop := RInv g pos /\ FInv g /\ CInv g.

Lemma wcnt_repeat i n : wcnt i (repeat WStart n) = 0.
Proof. induction n; cbn; auto. Qed.

Lemma pm_new base ff : PMinv (new_gen c base ff) base.
Proof.
  unfold new_gen. rewrite Hpm, Hio. cbn. split; [|split].
  - constructor; cbn; auto; try lia; try (intros; contradiction); try (intros; lia);
      try (unfold RPos; cbn; repeat split; reflexivity).
  - constructor; cbn; auto; try lia; try (induction (k_nw c); cbn; constructor; auto; fail);
      try (intros i; unfold cntU; cbn; rewrite wcnt_repeat; lia).
  - constructor; cbn; auto; try (intros i [[x H]|[e H]]; discriminate); try (intros H; discriminate);
      try (intros _; split; [reflexivity|]; left; split; [reflexivity | left; reflexivity]); try (intros; lia).
Qed.

(* ---------------------------------------------------------------------------------------------------------- *)
(* frames *)
Lemma finv_frame g g' :
  FInv g -> g_q1 g' = g_q1 g -> g_ws g' = g_ws g -> g_q2 g' = g_q2 g -> g_sbuf g' = g_sbuf g -> g_s g' = g_s g -> g_q3 g' = g_q3 g ->
  g_taken g' = g_taken g -> g_scur g' = g_scur g -> g_ridx g' = g_ridx g -> g_base g' = g_base g -> rpend (g_r g') = rpend (g_r g) ->
  FInv g'.
Proof.
  intros [F1 F2 F3 F4 F5 F6 F7 F8 F9 F10 F11] E1 E2 E3 E4 E5 E6 E7 E8 E9 E10 E11.
  constructor; unfold cntU in *; rewrite ?E1, ?E2, ?E3, ?E4, ?E5, ?E6, ?E7, ?E8, ?E9, ?E10, ?E11; assumption.
Qed.

Lemma cinv_frame g g' :
  CInv g -> g_c g' = g_c g -> g_term g' = g_term g -> g_recv g' = g_recv g -> g_taken g' = g_taken g -> g_items g' = g_items g ->
  g_snap g' = g_snap g -> g_steps g' = g_steps g -> g_base g' = g_base g -> g_ridx g' = g_ridx g ->
  (g_term g = true -> g_r g' = RDone) ->
  ((g_c g = CInit \/ g_c g = CSleep) ->
   ((g_store g = [] /\ (g_r g = RStart \/ exists p, g_r g = RInitPut p)) \/ (exists rest, g_store g = (0, g_base g) :: rest)) ->
   ((g_store g' = [] /\ (g_r g' = RStart \/ exists p, g_r g' = RInitPut p)) \/ (exists rest, g_store g' = (0, g_base g) :: rest))) ->
  CInv g'.
Proof.
  intros [C1 C2 C3 CL C4 C5 C6 C7 C8] E1 E2 E3 E4 E5 E6 E7 E8 E9 Ht Hi.
  constructor; rewrite ?E1, ?E2, ?E3, ?E4, ?E5, ?E6, ?E7, ?E8, ?E9; auto.
  - intros H. split; [exact (proj1 (C4 H)) | apply Ht, H].
  - intros H. destruct (C6 H) as [H1 H2]. split; [exact H1 | apply (Hi H H2)].
Qed.

Lemma cnt_snoc i l x : cnt i (l ++ [x]) = cnt i l + b2n (x =? i).
Proof. rewrite cnt_app. cbn. lia. Qed.

Ltac frame_tail := cbn; repeat match goal with H : g_r _ = _ |- _ => rewrite H | H : rpend _ = _ |- _ => rewrite H end; try reflexivity.

(* the reader's steps *)
Lemma pm_rstep m g pos : PMinv g pos -> PMinv (fst (rstep c m g pos)) (snd (rstep c m g pos)).
Proof.
  intros (R & F & C). pose proof R as [RP RS RY RX RA]. unfold RPos in RP.
  assert (g_term g = true -> g_r g = RDone) as Htd by (intros Ht; exact (proj2 (c_term _ C Ht))).
  unfold rstep. destruct (g_r g) eqn:Er; cbn [fst snd].
  - (* RStart *)
    destruct RP as (P1 & P2 & P3 & P4). split; [|split].
    + constructor; [unfold RPos; cbn; repeat split; auto | exact RS | exact I | exact RX | intros _; exact (RA eq_refl)].
    + apply (finv_frame g); auto; frame_tail.
    + apply (cinv_frame g); auto; cbn.
      * intros Ht. specialize (Htd Ht). congruence.
      * intros _ _. left. split; [exact P4 | right; eexists; reflexivity].
  - (* RInitPut *)
    destruct RP as (P1 & P2 & P3 & P4 & P5). split; [|split].
    + constructor; [unfold RPos; cbn; split; lia | | exact I | exact RX | intros _; exact (RA eq_refl)].
      cbn. intros v q Hin. rewrite P5 in Hin. cbn in Hin. destruct Hin as [Hin|[]]. injection Hin as <- <-. lia.
    + apply (finv_frame g); auto; frame_tail.
    + apply (cinv_frame g); auto; cbn.
      * intros Ht. specialize (Htd Ht). congruence.
      * intros _ _. right. rewrite P5, P1. cbn. eexists; reflexivity.
  - (* RChk *)
    assert (forall r', rpend r' = 0 -> RPos (g <| g_r := r' |>) pos -> (r' = RDone \/ r' = RAcq) -> PMinv (g <| g_r := r' |>) pos) as HB.
    { intros r' Hr' HR Hcases. split; [|split].
      - constructor; [exact HR | exact RS | destruct Hcases as [->| ->]; exact I | exact RX | intros _; exact (RA eq_refl)].
      - apply (finv_frame g); auto; frame_tail.
      - apply (cinv_frame g); auto; cbn.
        + intros Ht. specialize (Htd Ht). congruence.
        + intros _ [[_ [Hx|[p Hx]]]|Hx]; [congruence | congruence | right; exact Hx]. }
    destruct (g_stop g); apply HB; auto; unfold RPos; cbn; auto.
  - (* RAcq *)
    assert (forall g1 r', rpend r' = 0 -> (g1 = g \/ exists n, g1 = g <| g_sem := n |>) -> (r' = RPull \/ r' = RChk) ->
                          PMinv (g1 <| g_r := r' |>) pos) as HB.
    { intros g1 r' Hr' Hg1 Hcases.
      assert (PMinv (g <| g_r := r' |>) pos) as H0.
      { split; [|split].
        - constructor; [unfold RPos; cbn; destruct Hcases as [->| ->]; exact RP | exact RS | destruct Hcases as [->| ->]; exact I | exact RX | intros _; exact (RA eq_refl)].
        - apply (finv_frame g); auto; frame_tail.
        - apply (cinv_frame g); auto; cbn.
          + intros Ht. specialize (Htd Ht). congruence.
          + intros _ [[_ [Hx|[p Hx]]]|Hx]; [congruence | congruence | right; exact Hx]. }
      destruct Hg1 as [->|[n ->]]; [exact H0|].
      destruct H0 as ([A1 A2 A3 A4 A5] & F0 & C0). split; [|split].
      - constructor; assumption.
      - apply (finv_frame (g <| g_r := r' |>)); auto; frame_tail.
      - apply (cinv_frame (g <| g_r := r' |>)); auto. intros Ht. exact (proj2 (c_term _ C0 Ht)). }
    destruct m; [destruct (g_sem g) as [|n] eqn:Es|].
    + cbn. split; [|split; [exact F | exact C]]. constructor; [unfold RPos; rewrite Er; exact RP | exact RS | rewrite Er; exact I | exact RX | rewrite Er; exact RA].
    + apply (HB (g <| g_sem := n |>) RPull); [reflexivity | right; eexists; reflexivity | left; reflexivity].
    + apply (HB g RChk); [reflexivity | left; reflexivity | right; reflexivity].
  - (* RPull: one more index is handed out *)
    destruct RP as [P1 P2]. pose proof F as [F1 F2 F3 F4 F5 F6 F7 F8 F9 F10 F11]. rewrite ?Er in F10, F11. cbn in F10, F11.
    assert (spay c pos = spay c (g_base g + g_ridx g)) as Hs by (rewrite P1; reflexivity).
    assert (forall j, j < g_ridx g -> isitem (g_base g + j)) as Hall by (apply RA; reflexivity).
    assert (forall g', g_q1 g' = g_q1 g -> g_ws g' = g_ws g -> g_q2 g' = g_q2 g -> g_sbuf g' = g_sbuf g -> g_s g' = g_s g -> g_q3 g' = g_q3 g ->
                       g_taken g' = g_taken g -> g_scur g' = g_scur g -> g_ridx g' = S (g_ridx g) -> g_base g' = g_base g -> rpend (g_r g') = 1 ->
                       FInv g') as HF.
    { intros g' E1 E2 E3 E4 E5 E6 E7 E8 E9 E10 E11.
      constructor; unfold cntU in *; rewrite ?E1, ?E2, ?E3, ?E4, ?E5, ?E6, ?E7, ?E8, ?E9, ?E10, ?E11; auto.
      - intros i Hi. destruct (F10 i Hi). lia.
      - lia. }
    assert (forall g', g_c g' = g_c g -> g_term g' = g_term g -> g_recv g' = g_recv g -> g_taken g' = g_taken g -> g_items g' = g_items g ->
                       g_snap g' = g_snap g -> g_steps g' = g_steps g -> g_base g' = g_base g -> g_store g' = g_store g -> CInv g') as HC.
    { intros g' E1 E2 E3 E4 E5 E6 E7 E8 E9. destruct C as [C1 C2 C3 CL C4 C5 C6 C7 C8].
      constructor; rewrite ?E1, ?E2, ?E3, ?E4, ?E5, ?E6, ?E7, ?E8, ?E9; auto.
      - intros Ht. specialize (Htd Ht). congruence.
      - intros H. destruct (C6 H) as [H1 [[_ [Hx|[p Hx]]]|Hx]]; [congruence | congruence | split; [exact H1 | right; exact Hx]]. }
    unfold spay in Hs at 1.
    destruct (match k_err c with Some e => e =? pos | None => false end) eqn:Ee.
    + split; [|split]; [|apply HF; reflexivity | apply HC; reflexivity].
      constructor; [unfold RPos; cbn; repeat split; auto; try congruence; try (intros Hd; discriminate) | exact RS | cbn; exact Hs
                   | cbn; intros j Hj; apply Hall; lia | cbn; intros Hd; discriminate].
    + destruct (nth_error (k_xs c) pos) as [x|] eqn:En.
      * destruct ((0 <? k_sf c) && (S (g_ryield g) mod k_sf c =? 0));
          (split; [|split]; [|apply HF; reflexivity | apply HC; reflexivity];
           constructor; [unfold RPos; cbn; repeat split; try lia; try (intros Hd; discriminate); try (intros _; lia) | exact RS | cbn; exact Hs
                        | cbn; intros j Hj; apply Hall; lia
                        | cbn; intros _ j Hj; destruct (Nat.eq_dec j (g_ridx g)) as [->|Hne]; [exists x; symmetry; exact Hs | apply Hall; lia]]).
      * split; [|split]; [|apply HF; reflexivity | apply HC; reflexivity].
        constructor; [unfold RPos; cbn; repeat split; auto; try congruence; try (intros Hd; discriminate) | exact RS | cbn; exact Hs
                     | cbn; intros j Hj; apply Hall; lia | cbn; intros Hd; discriminate].
  - (* RStore *)
    destruct RP as (P1 & P2 & P3 & P4). split; [|split].
    + constructor; [unfold RPos; cbn; repeat split; try lia; try (intros Hd; discriminate); try (intros _; lia) | | cbn; exact RY | exact RX | cbn; intros _; exact (RA eq_refl)].
      cbn. intros v q Hin. apply in_app_or in Hin. destruct Hin as [Hin|[Hin|[]]]; [apply RS, Hin|]. injection Hin as <- <-. lia.
    + apply (finv_frame g); auto; frame_tail.
    + apply (cinv_frame g); auto; cbn.
      * intros Ht. specialize (Htd Ht). congruence.
      * intros _ [[_ [Hx|[p Hx]]]|[rest Hx]]; [congruence | congruence | right; rewrite Hx; cbn; eexists; reflexivity].
  - (* RPut: the entry enters the workers' input queue *)
    destruct RP as (P1 & P2 & P3). pose proof F as [F1 F2 F3 F4 F5 F6 F7 F8 F9 F10 F11]. rewrite ?Er in F10, F11. cbn in F10, F11.
    assert (forall j, cntU j g + cnt j (hidx (g_s g)) = 0 \/ j < i) as Hfresh.
    { intros j. destruct (cntU j g + cnt j (hidx (g_s g))) eqn:E; [left; reflexivity|]. right. destruct (F10 j ltac:(lia)). lia. }
    assert (forall r', rpend r' = 0 -> FInv (g <| g_q1 ::= fun q => q ++ [(p, i)] |> <| g_r := r' |>)) as HF.
    { intros r' Hr'. constructor; cbn; auto.
      - apply Forall_app. split; [exact F1 | constructor; [exact RY | constructor]].
      - intros j. unfold cntU. cbn. rewrite map_app. cbn [map snd]. rewrite cnt_snoc.
        specialize (F9 j). unfold cntU in F9. destruct (Nat.eqb_spec i j) as [->|Hne]; cbn; [|lia].
        destruct (Hfresh j) as [H0|H0]; [unfold cntU in H0; lia | lia].
      - intros j. unfold cntU. cbn. rewrite map_app, Hr'. cbn [map snd]. rewrite cnt_snoc.
        destruct (Nat.eqb_spec i j) as [->|Hne]; cbn.
        + intros _. lia.
        + intros Hj. destruct (F10 j). { unfold cntU. lia. } lia.
      - rewrite Hr'. lia. }
    assert (g_term g = true -> False) as Hnt by (intros Ht; specialize (Htd Ht); discriminate).
    assert (forall r', CInv (g <| g_q1 ::= fun q => q ++ [(p, i)] |> <| g_r := r' |>)) as HC.
    { intros r'. apply (cinv_frame g); auto; cbn.
      - intros Ht. contradiction.
      - intros _ [[_ [Hx|[p0 Hx]]]|Hx]; [congruence | congruence | right; exact Hx]. }
    destruct last.
    + split; [|split]; [|apply HF; auto | apply HC].
      constructor; [unfold RPos; cbn; exact I | exact RS | exact I | exact RX | cbn; intros Hd; discriminate].
    + destruct (P3 eq_refl) as [P4 P5]. split; [|split]; [|apply HF; auto | apply HC].
      constructor; [unfold RPos; cbn; split; assumption | exact RS | exact I | exact RX | cbn; intros _; exact (RA eq_refl)].
  - (* RDone *)
    cbn. split; [|split]; [|exact F | exact C].
    constructor; [unfold RPos; rewrite Er; exact I | exact RS | rewrite Er; exact I | exact RX | rewrite Er; exact RA].
Qed.

(* ---------------------------------------------------------------------------------------------------------- *)
(* workers *)
Lemma rinv_frame g g' pos :
  RInv g pos -> g_r g' = g_r g -> g_base g' = g_base g -> g_ridx g' = g_ridx g -> g_ryield g' = g_ryield g ->
  (forall e, In e (g_store g') -> In e (g_store g)) -> (g_store g = [] -> g_store g' = []) -> RInv g' pos.
Proof.
  intros [RP RS RY RX RA] E1 E2 E3 E4 Hsub Hnil.
  constructor; rewrite ?E1, ?E2, ?E3; auto; try (apply (rpos_frame g); auto; fail); try (intros v p Hin; apply RS, Hsub, Hin).
Qed.

Lemma Forall_set_nth {A} (P : A -> Prop) i x l : Forall P l -> P x -> Forall P (set_nth i x l).
Proof.
  intros H Hx. unfold set_nth. apply Forall_app. split.
  - clear Hx. revert i. induction H; intros [|i]; cbn; constructor; auto.
  - assert (Forall P (skipn i l)) as Hs by (clear Hx; revert i; induction H; intros [|i]; cbn; auto; constructor; auto).
    destruct (skipn i l); [constructor|]. inversion Hs; subst. constructor; assumption.
Qed.

Lemma Forall_nth_error {A} (P : A -> Prop) l i x : Forall P l -> nth_error l i = Some x -> P x.
Proof. intros H E. apply nth_error_In in E. rewrite Forall_forall in H. apply H, E. Qed.

Lemma pm_wstep i m g pos : PMinv g pos -> PMinv (wstep c i m g) pos.
Proof.
  intros (R & F & C). unfold wstep. destruct (nth_error (g_ws g) i) as [p|] eqn:En; [|split; [|split]; assumption].
  pose proof F as [F1 F2 F3 F4 F5 F6 F7 F8 F9 F10 F11].
  (* changing only worker i's pc to one that holds nothing, from one that holds nothing *)
  assert (forall p', widx p = [] -> widx p' = [] -> (match p' with WPut _ _ => False | _ => True end) ->
            PMinv (g <| g_ws ::= set_nth i p' |>) pos) as Hquiet.
  { intros p' Hp Hp' Hnp. split; [|split].
    - apply (rinv_frame g); auto.
    - constructor; cbn; auto.
      + apply Forall_set_nth; [exact F2 | destruct p'; auto; contradiction].
      + intros j. unfold cntU. cbn. pose proof (wcnt_set_nth j i p' _ _ En) as HW. rewrite Hp, Hp' in HW. cbn in HW.
        specialize (F9 j). unfold cntU in F9. lia.
      + intros j. unfold cntU. cbn. pose proof (wcnt_set_nth j i p' _ _ En) as HW. rewrite Hp, Hp' in HW. cbn in HW.
        intros Hj. apply F10. unfold cntU. lia.
    - apply (cinv_frame g); auto. intros Ht. exact (proj2 (c_term _ C Ht)). }
  destruct p.
  - apply Hquiet; cbn; auto.
  - destruct (g_stop g); apply Hquiet; cbn; auto.
  - destruct (g_q1 g); apply Hquiet; cbn; auto.
  - destruct m; [|apply Hquiet; cbn; auto].
    destruct (g_q1 g) as [|[pl idx] tl] eqn:Eq; [split; [|split]; assumption|].
    inversion F1 as [|? ? Hpl F1t]; subst. cbn in Hpl.
    set (p' := match pl with PItem x => match k_f c x with Some y => PItem y | None => PErr 1 end | _ => pl end).
    assert (p' = mpay (g_base g + idx)) as Hp' by (unfold p', mpay, mapped; rewrite <- Hpl; reflexivity).
    split; [|split].
    + apply (rinv_frame g); auto.
    + constructor; cbn; auto.
      * apply Forall_set_nth; [exact F2 | exact Hp'].
      * intros j. unfold cntU. cbn. pose proof (wcnt_set_nth j i (WPut p' idx) _ _ En) as HW. cbn in HW.
        specialize (F9 j). unfold cntU in F9. rewrite Eq in F9. cbn in F9. lia.
      * intros j. unfold cntU. cbn. pose proof (wcnt_set_nth j i (WPut p' idx) _ _ En) as HW. cbn in HW.
        intros Hj. apply F10. unfold cntU. rewrite Eq. cbn. lia.
    + apply (cinv_frame g); auto. intros Ht. exact (proj2 (c_term _ C Ht)).
  - (* WPut: the mapped entry goes to the sorter's input queue *)
    pose proof (Forall_nth_error _ _ _ _ F2 En) as Hp. cbn in Hp.
    split; [|split].
    + apply (rinv_frame g); auto.
    + constructor; cbn; auto.
      * apply Forall_set_nth; [exact F2 | exact I].
      * apply Forall_app. split; [exact F3 | constructor; [exact Hp | constructor]].
      * intros j. unfold cntU. cbn. rewrite map_app. cbn [map snd]. rewrite cnt_snoc.
        pose proof (wcnt_set_nth j i WChk _ _ En) as HW. cbn in HW. specialize (F9 j). unfold cntU in F9. lia.
      * intros j. unfold cntU. cbn. rewrite map_app. cbn [map snd]. rewrite cnt_snoc.
        pose proof (wcnt_set_nth j i WChk _ _ En) as HW. cbn in HW. intros Hj. apply F10. unfold cntU. lia.
    + apply (cinv_frame g); auto. intros Ht. exact (proj2 (c_term _ C Ht)).
  - split; [|split]; assumption.
Qed.

(* ---------------------------------------------------------------------------------------------------------- *)
(* sorter *)
Lemma s_after_frame g : g_r (s_after g) = g_r g /\ g_base (s_after g) = g_base g /\ g_ridx (s_after g) = g_ridx g /\ g_ryield (s_after g) = g_ryield g
  /\ g_store (s_after g) = g_store g /\ g_c (s_after g) = g_c g /\ g_term (s_after g) = g_term g /\ g_recv (s_after g) = g_recv g
  /\ g_taken (s_after g) = g_taken g /\ g_items (s_after g) = g_items g /\ g_snap (s_after g) = g_snap g /\ g_steps (s_after g) = g_steps g.
Proof. unfold s_after. destruct (buf_find (g_scur g) (g_sbuf g)); cbn; repeat split; reflexivity. Qed.

(* `while cur_idx in buffer`: from a state in which the sorter holds nothing *)
Lemma finv_s_after g : FInv (g <| g_s := SChk |>) -> FInv (s_after g).
Proof.
  intros [F1 F2 F3 F4 F5 F6 F7 F8 F9 F10 F11]. cbn in *. unfold s_after.
  destruct (buf_find (g_scur g) (g_sbuf g)) as [p|] eqn:Ef.
  - pose proof (buf_find_in _ _ _ Ef) as Hin.
    assert (p = mpay (g_base g + g_scur g)) as Hp by (rewrite Forall_forall in F4; apply (F4 _ Hin)).
    constructor; cbn; auto.
    + rewrite Forall_forall in *. intros e He. apply F4, (buf_remove_in _ _ _ He).
    + intros j. unfold cntU in *. cbn in *. pose proof (buf_remove_cnt _ _ _ j Ef) as HB. specialize (F9 j). lia.
    + intros j. unfold cntU in *. cbn in *. pose proof (buf_remove_cnt _ _ _ j Ef) as HB. intros Hj. apply F10. lia.
  - constructor; cbn; auto.
Qed.

Lemma pm_sstep m g pos : PMinv g pos -> PMinv (sstep c m g) pos.
Proof.
  intros (R & F & C).
  assert (forall g', g_r g' = g_r g -> g_base g' = g_base g -> g_ridx g' = g_ridx g -> g_ryield g' = g_ryield g -> g_store g' = g_store g ->
                     g_c g' = g_c g -> g_term g' = g_term g -> g_recv g' = g_recv g -> g_taken g' = g_taken g -> g_items g' = g_items g ->
                     g_snap g' = g_snap g -> g_steps g' = g_steps g -> FInv g' -> PMinv g' pos) as Hrest.
  { intros g' E1 E2 E3 E4 E5 E6 E7 E8 E9 E10 E11 E12 HF. split; [|split; [exact HF|]].
    - apply (rinv_frame g); auto; rewrite E5; auto.
    - apply (cinv_frame g); auto; rewrite ?E5, ?E1; auto. intros Ht. exact (proj2 (c_term _ C Ht)). }
  pose proof F as [F1 F2 F3 F4 F5 F6 F7 F8 F9 F10 F11].
  (* the sorter's pc changes between pcs that hold nothing *)
  assert (forall p', hidx (g_s g) = [] -> hidx p' = [] -> (match p' with SPut _ _ | SPutDup _ => False | _ => True end) -> FInv (g <| g_s := p' |>)) as Hquiet.
  { intros p' Hh Hh' Hp'. constructor; cbn; auto.
    - destruct p'; auto; contradiction.
    - intros j. rewrite Hh'. rewrite Hh in F9. exact (F9 j).
    - intros j. rewrite Hh'. rewrite Hh in F10. exact (F10 j). }
  unfold sstep. destruct (g_s g) eqn:Es.
  - apply Hrest; try reflexivity. apply Hquiet; cbn; auto.
  - destruct (g_stop g); (apply Hrest; try reflexivity); apply Hquiet; cbn; auto.
  - destruct m; [|apply Hrest; try reflexivity; apply Hquiet; cbn; auto].
    destruct (g_q2 g) as [|[p i] tl] eqn:Eq; [split; [|split]; assumption|].
    inversion F3 as [|? ? Hp F3t]; subst. cbn in Hp.
    change (g_scur (g <| g_q2 := tl |>)) with (g_scur g). change (g_sbuf (g <| g_q2 := tl |>)) with (g_sbuf g).
    assert (g_scur g <= i) as Hge.
    { apply (F10 i). unfold cntU. rewrite Eq. cbn. rewrite Nat.eqb_refl. cbn. lia. }
    destruct (Nat.eqb_spec i (g_scur g)) as [Ei|Hne].
    + (* the expected index: it will be put next *)
      apply Hrest; auto. constructor; cbn; auto.
      * intros j. unfold cntU in *. cbn. specialize (F9 j). rewrite Eq in F9. cbn in F9. lia.
      * intros j. unfold cntU in *. cbn. intros Hj. apply F10. rewrite Eq. cbn. lia.
    + destruct (buf_find i (g_sbuf g)) as [q|] eqn:Ef.
      * (* a duplicate index: impossible, every index occurs at most once *)
        exfalso. assert (1 <= cnt i (map fst (g_sbuf g))) as Hb by (apply buf_find_cnt; eauto).
        specialize (F9 i). unfold cntU in F9. rewrite Eq in F9. cbn in F9. rewrite Nat.eqb_refl in F9. cbn in F9. lia.
      * (* buffered *)
        match goal with |- PMinv (s_after ?x) _ => destruct (s_after_frame x) as (A1&A2&A3&A4&A5&A6&A7&A8&A9&A10&A11&A12); apply (Hrest (s_after x)); [rewrite A1|rewrite A2|rewrite A3|rewrite A4|rewrite A5|rewrite A6|rewrite A7|rewrite A8|rewrite A9|rewrite A10|rewrite A11|rewrite A12|]; try reflexivity end.
        apply finv_s_after. constructor; cbn; auto.
        -- apply Forall_app. split; [exact F4 | constructor; [exact Hp | constructor]].
        -- intros j. unfold cntU in *. cbn. rewrite map_app. cbn [map fst]. rewrite cnt_snoc. specialize (F9 j). rewrite Eq in F9. cbn in F9. lia.
        -- intros j. unfold cntU in *. cbn. rewrite map_app. cbn [map fst]. rewrite cnt_snoc. intros Hj. apply F10. rewrite Eq. cbn. lia.
  - (* SPut: the next index in order leaves the sorter *)
    destruct F5 as [Hp Hi]. subst i.
    assert (cntU (g_scur g) g = 0) as Hz by (specialize (F9 (g_scur g)); cbn in F9; rewrite Nat.eqb_refl in F9; cbn in F9; lia).
    destruct (F10 (g_scur g)) as [_ Hlt]; [cbn; rewrite Nat.eqb_refl; cbn; lia|].
    match goal with |- PMinv (s_after ?x) _ => destruct (s_after_frame x) as (A1&A2&A3&A4&A5&A6&A7&A8&A9&A10&A11&A12); apply (Hrest (s_after x)); [rewrite A1|rewrite A2|rewrite A3|rewrite A4|rewrite A5|rewrite A6|rewrite A7|rewrite A8|rewrite A9|rewrite A10|rewrite A11|rewrite A12|]; try reflexivity end.
    apply finv_s_after. constructor; cbn; auto.
    + apply Forall_app. split; [exact F6 | constructor; [exact Hp | constructor]].
    + rewrite map_app, app_length, seq_app, F7. cbn. rewrite F8. reflexivity.
    + rewrite app_length. cbn. lia.
    + intros j. specialize (F9 j). unfold cntU in *. cbn in F9. lia.
    + intros j Hj. destruct (F10 j) as [H1 H2]; [unfold cntU; cbn; lia|]. split; [|exact H2].
      destruct (Nat.eq_dec j (g_scur g)) as [->|Hne]; [unfold cntU in Hz; lia | lia].
  - (* SPutDup: unreachable *) contradiction.
  - split; [|split]; assumption.
Qed.

(* ---------------------------------------------------------------------------------------------------------- *)
(* consumer *)
Lemma outq_pm g : outq c g = g_q3 g.
Proof. unfold outq. rewrite Hpm, Hio. reflexivity. Qed.
Lemma set_outq_pm q g : set_outq c q g = g <| g_q3 := q |>.
Proof. unfold set_outq. rewrite Hpm, Hio. reflexivity. Qed.

Definition quiet (p : cpc) : Prop := match p with CRel _ _ | CRelErr _ _ | CRelStop | CInit | CSleep => False | _ => True end.

(* a step that changes the consumer's pc between pcs that hold nothing (and flags no invariant mentions) *)
Lemma pm_quiet g g' pos : PMinv g pos ->
  g_r g' = g_r g -> g_base g' = g_base g -> g_ridx g' = g_ridx g -> g_ryield g' = g_ryield g -> g_store g' = g_store g ->
  g_q1 g' = g_q1 g -> g_ws g' = g_ws g -> g_q2 g' = g_q2 g -> g_sbuf g' = g_sbuf g -> g_s g' = g_s g -> g_q3 g' = g_q3 g ->
  g_taken g' = g_taken g -> g_scur g' = g_scur g -> g_term g' = g_term g -> g_recv g' = g_recv g -> g_items g' = g_items g ->
  g_snap g' = g_snap g -> g_steps g' = g_steps g ->
  cheld (g_c g) = 0 -> quiet (g_c g') -> PMinv g' pos.
Proof.
  intros (R & F & C) E1 E2 E3 E4 E5 E6 E7 E8 E9 E10 E11 E12 E13 E14 E15 E16 E17 E18 Hh Hq. split; [|split].
  - apply (rinv_frame g); auto; rewrite E5; auto.
  - apply (finv_frame g); auto. rewrite E1. reflexivity.
  - destruct C as [C1 C2 C3 CL C4 C5 C6 C7 C8].
    constructor; rewrite ?E1, ?E2, ?E3, ?E12, ?E14, ?E15, ?E16, ?E17, ?E18; auto.
    + intros i [[x H]|[e H]]; rewrite H in Hq; contradiction.
    + destruct (g_c g'); try exact I; contradiction.
    + intros Ht. rewrite <- (C3 Ht), Hh. destruct (g_c g'); try reflexivity; contradiction.
    + intros H. destruct (g_c g'); try discriminate; try contradiction.
    + intros [H|H]; rewrite H in Hq; contradiction.
Qed.

(* the entry the consumer takes is terminal exactly when the source ended there *)
Lemma pm_terminal g pos i tl p : RInv g pos -> FInv g -> g_q3 g = (p, i) :: tl -> i = g_taken g -> ~ isitem (g_base g + i) ->
  S i = g_ridx g /\ g_r g = RDone.
Proof.
  intros [RP RS RY RX RA] [F1 F2 F3 F4 F5 F6 F7 F8 F9 F10 F11] Eq Ei Hn. rewrite Eq in F8. cbn in F8.
  assert (S i + rpend (g_r g) <= g_ridx g) as Hle by lia.
  assert (~ S i < g_ridx g) as Hnl by (intros Hl; apply Hn, RX, Hl).
  assert (rfinal (g_r g) = true) as Hf.
  { destruct (rfinal (g_r g)) eqn:Ef; [reflexivity|]. exfalso. apply Hn, (RA eq_refl). lia. }
  split; [lia|]. destruct (g_r g); try discriminate; [cbn in Hle; lia | reflexivity].
Qed.

Lemma got_item pos x : mpay pos = PItem x -> got pos = [x].
Proof. unfold got. intros ->. reflexivity. Qed.
Lemma got_err pos e : mpay pos = PErr e -> got pos = [].
Proof. unfold got. intros ->. reflexivity. Qed.

Lemma items_snoc base n : flat_map (fun k => got (base + k)) (seq 0 (S n)) = flat_map (fun k => got (base + k)) (seq 0 n) ++ got (base + n).
Proof. rewrite seq_S, flat_map_app. cbn. rewrite app_nil_r. reflexivity. Qed.

Ltac fin := cbn; auto; try (intros; discriminate); try (intros; lia); try (intros ? [[? Hx]|[? Hx]]; discriminate); try (intros [Hx|Hx]; discriminate); try lia.

Lemma pm_cstep m g pos : PMinv g pos -> PMinv (fst (cstep c m g)) pos.
Proof.
  intros H. pose proof H as (R & F & C). pose proof C as [C1 C2 C3 CL C4 C5 C6 C7 C8].
  assert (forall k, exists p, fst (after_join c g k) = g <| g_c := p |> /\ quiet p) as Haj.
  { intros k. destruct (after_join_pc c g k) as (p & Ep & [->|[k' ->]]); eexists; (split; [exact Ep | exact I]). }
  unfold cstep. rewrite outq_pm, Hpm. destruct (g_c g) eqn:Ec.
  - (* CIdle *) exact H.
  - (* CSleep *)
    cbn [fst]. split; [|split].
    + apply (rinv_frame g); auto.
    + apply (finv_frame g); auto.
    + constructor; fin.
  - (* CInit: the initial snapshot is received *)
    destruct m; [|exact H]. destruct (g_store g) as [|[v sp] tl] eqn:Es; [exact H|]. cbn [fst].
    destruct (C6 (or_introl eq_refl)) as [Hsn [[Hx _]|[rest Hr]]]; [discriminate|]. injection Hr as -> -> ->.
    split; [|split].
    + apply (rinv_frame g); auto; cbn; rewrite ?Es; [intros e He; right; exact He | discriminate].
    + apply (finv_frame g); auto.
    + constructor; fin.
      all: try solve [rewrite <- Hsn; exact C7].
  - (* CChk *)
    destruct (g_stop g); cbn [fst]; apply (pm_quiet g); auto; try (rewrite Ec; reflexivity); exact I.
  - (* CChk2 *)
    destruct (g_mpstop g); [|destruct ((g_done g || negb (r_alive g)) && (g_sem g =? kmax c))]; cbn [fst];
      apply (pm_quiet g); auto; try (rewrite Ec; reflexivity); exact I.
  - (* CStopA *) cbn [fst]; apply (pm_quiet g); auto; try (rewrite Ec; reflexivity); exact I.
  - (* CStopB *) cbn [fst]; apply (pm_quiet g); auto; try (rewrite Ec; reflexivity); exact I.
  - (* CGet *)
    destruct m; [|cbn [fst]; apply (pm_quiet g); auto; try (rewrite Ec; reflexivity); exact I].
    destruct (g_q3 g) as [|[p i] tl] eqn:Eq; [exact H|]. rewrite set_outq_pm.
    pose proof F as [F1 F2 F3 F4 F5 F6 F7 F8 F9 F10 F11]. rewrite Eq in F6, F7, F8. cbn in F7, F8. injection F7 as Ei F7.
    inversion F6 as [|? ? Hp F6t]; subst. cbn in Hp. subst p.
    assert (g_term g = false) as Htf.
    { destruct (g_term g) eqn:Et; [|reflexivity]. destruct (C4 eq_refl) as [Ht _]. lia. }
    specialize (C3 Htf). cbn in C3.
    assert (forall g', g_q1 g' = g_q1 g -> g_ws g' = g_ws g -> g_q2 g' = g_q2 g -> g_sbuf g' = g_sbuf g -> g_s g' = g_s g -> g_q3 g' = tl ->
                       g_taken g' = S (g_taken g) -> g_scur g' = g_scur g -> g_ridx g' = g_ridx g -> g_base g' = g_base g -> g_r g' = g_r g ->
                       FInv g') as HF.
    { intros g' E1 E2 E3 E4 E5 E6 E7 E8 E9 E10 E11.
      constructor; unfold cntU in *; rewrite ?E1, ?E2, ?E3, ?E4, ?E5, ?E6, ?E7, ?E8, ?E9, ?E10, ?E11; auto. lia. }
    assert (forall g', g_r g' = g_r g -> g_base g' = g_base g -> g_ridx g' = g_ridx g -> g_ryield g' = g_ryield g -> g_store g' = g_store g ->
                       RInv g' pos) as HR by (intros g' E1 E2 E3 E4 E5; apply (rinv_frame g); auto; rewrite E5; auto).
    assert (~ isitem (g_base g + g_taken g) -> S (g_taken g) = g_ridx g /\ g_r g = RDone) as Hterm.
    { intros Hn. apply (pm_terminal g pos (g_taken g) tl (mpay (g_base g + g_taken g))); auto. }
    destruct (mpay (g_base g + g_taken g)) as [x| |e] eqn:Em; cbn [fst].
    + (* an item *)
      split; [apply HR; reflexivity | split; [apply HF; reflexivity|]].
      constructor; fin.
      all: try solve [intros i [[x0 Hx]|[e Hx]]; [injection Hx as _ <-; reflexivity | discriminate]].
      all: try solve [intros _; lia].
      all: try solve [intros Ht; congruence].
    + (* StopIteration *)
      assert (~ isitem (g_base g + g_taken g)) as Hn by (intros [x0 Hx]; apply mpay_stop in Em; congruence).
      destruct (Hterm Hn) as [Ht1 Ht2].
      split; [apply HR; reflexivity | split; [apply HF; reflexivity|]].
      constructor; fin.
    + (* an error *)
      destruct (mpay_err _ _ Em) as [[-> Hs]|[-> Hit]].
      * assert (~ isitem (g_base g + g_taken g)) as Hn by (intros [x0 Hx]; congruence).
        destruct (Hterm Hn) as [Ht1 Ht2].
        split; [apply HR; reflexivity | split; [apply HF; reflexivity|]].
        constructor; fin.
        all: try solve [intros i [[x0 Hx]|[e Hx]]; [discriminate | injection Hx as _ <-; reflexivity]].
      * split; [apply HR; reflexivity | split; [apply HF; reflexivity|]].
        constructor; fin.
        all: try solve [intros i [[x0 Hx]|[e Hx]]; [discriminate | injection Hx as _ <-; reflexivity]].
        all: try solve [intros _; lia].
        all: try solve [intros Ht; congruence].
  - (* CRel: the item is handed to the user; its snapshot, if any, is adopted *)
    pose proof (C1 i (or_introl (ex_intro _ x eq_refl))) as Hi. assert (g_term g = false) as Htf by (apply CL; reflexivity).
    specialize (C3 Htf). cbn in C3, C2.
    destruct (pop_version (S i) (g_store g)) as [res rest] eqn:Epop. cbn [fst].
    assert (forall e, In e rest -> In e (g_store g)) as Hsub by (intros e He; apply (pop_version_incl (S i)); rewrite Epop; exact He).
    assert (g_store g = [] -> rest = []) as Hnil by (intros Hn; rewrite Hn in Epop; cbn in Epop; congruence).
    assert (g_recv g = i) as Hri by lia.
    assert (g_items g ++ [x] = flat_map (fun k => got (g_base g + k)) (seq 0 (S (g_recv g)))) as Hit.
    { rewrite items_snoc, <- C5, Hri, (got_item _ x); auto. }
    destruct res as [sp|].
    + assert (In (S i, sp) (g_store g)) as Hin by (apply pop_version_exact; rewrite Epop; reflexivity).
      pose proof (r_store _ _ R _ _ Hin) as Hsp.
      split; [|split].
      * apply (rinv_frame g); auto.
      * apply (finv_frame g); auto.
      * constructor; fin.
        all: try solve [intros Ht; congruence].
        all: try solve [intros k Hk; destruct (Nat.eq_dec k (g_recv g)) as [->|Hne]; [rewrite Hri; eapply mpay_item; symmetry; exact C2 | apply C8; lia]].
    + split; [|split].
      * apply (rinv_frame g); auto.
      * apply (finv_frame g); auto.
      * constructor; fin.
        all: try solve [intros Ht; congruence].
        all: try solve [intros k Hk; destruct (Nat.eq_dec k (g_recv g)) as [->|Hne]; [rewrite Hri; eapply mpay_item; symmetry; exact C2 | apply C8; lia]].
  - (* CRelStop *) cbn [fst]; apply (pm_quiet g); auto; try (rewrite Ec; reflexivity); exact I.
  - (* CRelErr *)
    cbn [fst]. destruct (Nat.eq_dec e 1) as [->|Hne].
    + pose proof (C1 i (or_intror (ex_intro _ 1 eq_refl))) as Hi. assert (g_term g = false) as Htf by (apply CL; reflexivity).
      specialize (C3 Htf). cbn in C3, C2.
      match goal with |- context [pop_version _ (g_store ?x)] => change (g_store x) with (g_store g) end.
      destruct (pop_version (S i) (g_store g)) as [res rest] eqn:Epop.
      assert (forall e, In e rest -> In e (g_store g)) as Hsub by (intros e He; apply (pop_version_incl (S i)); rewrite Epop; exact He).
      assert (g_store g = [] -> rest = []) as Hnil by (intros Hn; rewrite Hn in Epop; cbn in Epop; congruence).
      assert (g_recv g = i) as Hri by lia.
      assert (g_items g = flat_map (fun k => got (g_base g + k)) (seq 0 (S (g_recv g)))) as Hit.
      { rewrite items_snoc, <- C5, Hri, (got_err _ 1), app_nil_r; auto. }
      destruct res as [sp|].
      * assert (In (S i, sp) (g_store g)) as Hin by (apply pop_version_exact; rewrite Epop; reflexivity).
        pose proof (r_store _ _ R _ _ Hin) as Hsp.
        split; [|split].
        -- apply (rinv_frame g); auto.
        -- apply (finv_frame g); auto.
        -- constructor; fin.
           all: try solve [intros Ht; congruence].
           all: try solve [intros k Hk; destruct (Nat.eq_dec k (g_recv g)) as [->|Hne]; [rewrite Hri; destruct (mpay_err _ _ (eq_sym C2)) as [[Hx _]|[_ Hx]]; [discriminate | exact Hx] | apply C8; lia]].
      * split; [|split].
        -- apply (rinv_frame g); auto.
        -- apply (finv_frame g); auto.
        -- constructor; fin.
           all: try solve [intros Ht; congruence].
           all: try solve [intros k Hk; destruct (Nat.eq_dec k (g_recv g)) as [->|Hne]; [rewrite Hri; destruct (mpay_err _ _ (eq_sym C2)) as [[Hx _]|[_ Hx]]; [discriminate | exact Hx] | apply C8; lia]].
    + assert (cheld (CRelErr e i) = 0) as Hh by (destruct e as [|[|e]]; [reflexivity | congruence | reflexivity]).
      destruct e as [|[|e]]; [|congruence|]; apply (pm_quiet g); auto; try (rewrite Ec; exact Hh); exact I.
  - (* CSetStop *) cbn [fst]; apply (pm_quiet g); auto; try (rewrite Ec; reflexivity); exact I.
  - (* CShSet *) cbn [fst]; apply (pm_quiet g); auto; try (rewrite Ec; reflexivity); exact I.
  - (* CShSet2 *)
    destruct (after_join_pc c (g <| g_mpstop := true |>) 0) as (p & Ep & Hp). rewrite Ep.
    apply (pm_quiet g); auto; try (rewrite Ec; reflexivity). destruct Hp as [->|[k' ->]]; exact I.
  - (* CShJoin *)
    destruct (after_join_pc c g (S k)) as (p & Ep & Hp).
    destruct m; destruct (stage_alive c g k); try exact H; rewrite Ep;
      (apply (pm_quiet g); auto; try (rewrite Ec; reflexivity); destruct Hp as [->|[k' ->]]; exact I).
Qed.

Lemma pm_ff g pos n : PMinv g pos -> PMinv (g <| g_ff := n |>) pos.
Proof.
  intros (R & F & C). split; [|split].
  - apply (rinv_frame g); auto.
  - apply (finv_frame g); auto.
  - apply (cinv_frame g); auto. intros Ht. exact (proj2 (c_term _ C Ht)).
Qed.

Lemma pm_idle_pc g pos p : PMinv g pos -> g_c g = CIdle -> (p = CChk \/ p = CShSet) -> PMinv (g <| g_c := p |>) pos.
Proof.
  intros H Hc Hp. apply (pm_quiet g); auto; [rewrite Hc; reflexivity | destruct Hp as [-> | ->]; exact I].
Qed.

End PM.

(* ---------------------------------------------------------------------------------------------------------- *)
Section PMGlobal.
Variable c : cfg.
Hypothesis Hpm : k_pm c = true.
Hypothesis Hio : k_inorder c = true.

Theorem pm_reachable script sched : jt_free c (init script) sched = true ->
  forall g, cur (run c sched (init script)) = Some g -> PMinv c g (s_pos (run c sched (init script))).
Proof.
  intros Hj g Eg.
  exact (p_reachable c (PMinv c) (pm_new c Hpm Hio) (pm_ff c) (pm_idle_pc c) (pm_cstep c Hpm Hio) (pm_rstep c)
           (pm_wstep c) (pm_sstep c) script sched Hj g Eg).
Qed.

(* what map_fn makes of one source item: [y], or nothing when it raises *)
Definition fo (x : nat) : list nat := match k_f c x with Some y => [y] | None => [] end.

Lemma nth_error_skipn {A} b (l : list A) n : nth_error (skipn b l) n = nth_error l (b + n).
Proof. revert l. induction b as [|b IH]; intros l; cbn; [reflexivity|]. destruct l as [|a l]; [destruct n; reflexivity | apply IH]. Qed.

Lemma firstn_S_nth {A} (l : list A) n x : nth_error l n = Some x -> firstn (S n) l = firstn n l ++ [x].
Proof.
  revert n. induction l as [|a l IH]; intros [|n] E; cbn in *; try discriminate.
  - injection E as ->. reflexivity.
  - f_equal. apply IH, E.
Qed.

Lemma got_items base n : (forall k, k < n -> isitem c (base + k)) ->
  flat_map (fun k => got c (base + k)) (seq 0 n) = flat_map fo (firstn n (skipn base (k_xs c))).
Proof.
  induction n as [|n IH]; intros Hall; [reflexivity|].
  rewrite items_snoc, IH by (intros k Hk; apply Hall; lia).
  destruct (Hall n (Nat.lt_succ_diag_r n)) as [x Hx].
  assert (nth_error (k_xs c) (base + n) = Some x) as En.
  { unfold spay in Hx. destruct (match k_err c with Some e => e =? base + n | None => false end); [discriminate|].
    destruct (nth_error (k_xs c) (base + n)); [injection Hx as ->; reflexivity | discriminate]. }
  rewrite (firstn_S_nth _ n x) by (rewrite nth_error_skipn; exact En).
  rewrite flat_map_app. cbn. rewrite app_nil_r. f_equal.
  unfold got, mpay, mapped, fo. rewrite Hx. destruct (k_f c x); reflexivity.
Qed.

(* C04 + C06 for ParallelMapper(in_order=True): along every schedule of reader, workers, sorter and consumer without a
   reader-join timeout, in every reachable state, what the current iterator has handed to the consumer is exactly map_fn
   over the source's items from the position it was started at, in source order, each once (an item on which map_fn
   raised is consumed and yields nothing) — and its state denotes the position right after them *)
Theorem parallel_mapper_is_ordered_map script sched : jt_free c (init script) sched = true ->
  forall g, cur (run c sched (init script)) = Some g ->
  g_items g = flat_map fo (firstn (g_recv g) (skipn (g_base g) (k_xs c))) /\ g_snap g + g_steps g = g_base g + g_recv g.
Proof.
  intros Hj g Eg. destruct (pm_reachable script sched Hj g Eg) as (R & F & C).
  split; [|exact (c_main _ _ C)]. rewrite (c_items _ _ C). apply got_items, (c_src _ _ C).
Qed.

(* every index is in flight at most once between the reader and the sorter's output, and only in the window
   [cur_idx, next index): the sorter never sees a duplicate index and its buffer is bounded by the read-ahead *)
Theorem parallel_mapper_index_discipline script sched : jt_free c (init script) sched = true ->
  forall g, cur (run c sched (init script)) = Some g ->
  (forall i, cntU i g + cnt i (hidx (g_s g)) <= 1) /\
  (forall i, 1 <= cntU i g + cnt i (hidx (g_s g)) -> g_scur g <= i < g_ridx g) /\
  map snd (g_q3 g) = seq (g_taken g) (length (g_q3 g)).
Proof.
  intros Hj g Eg. destruct (pm_reachable script sched Hj g Eg) as (R & F & C).
  split; [exact (f_cnt _ _ F) | split; [|exact (f_q3idx _ _ F)]].
  intros i Hi. destruct (f_bound _ _ F i Hi). lia.
Qed.

End PMGlobal.
