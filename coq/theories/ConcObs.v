(* ConcObs.v — observation encoding of ConcModel runs for the correspondence check: the recorded schedule of the
   real threads is replayed on the model; per step the model reports the pending primitive of the chosen thread,
   the set of moves the scheduler could choose from, and the shared state after the step — as one flat integer list
   per step (see harness/conc_common.py:step_enc for the same encoding of the implementation's run). *)
From PD Require Import Base ConcModel.

Definition zlab (l : lab) : Z :=
  match l with
  | LStart => 0 | LEvIsSet => 1 | LEvSet => 2 | LQPut => 3 | LQGet => 4 | LQEmpty => 5 | LSemAcq => 6
  | LSemRel => 7 | LSleep => 8 | LJoin => 9 | LSrcNext => 10
  end%Z.
Definition ntid (t : tid) : nat :=
  match t with
  | TC => 0
  | TG g GR => 1 + 64 * g
  | TG g (GW i) => 2 + 4 * i + 64 * g
  | TG g GS => 3 + 64 * g
  end.
Definition zmode (m : mode) : Z := match m with Go => 0 | Timeout => 1 end%Z.
Definition zmove (ch : tid * mode) : Z := (2 * Z.of_nat (ntid (fst ch)) + zmode (snd ch))%Z.
Definition zq (l : list nat) : list Z := Z.of_nat (length l) :: map Z.of_nat l.
Definition zdigest (c : cfg) (s : state) : list Z :=
  match cur s with
  | None => [(-1)%Z]
  | Some g =>
      let qs := [map snd (g_q1 g)] ++ (if k_pm c then [map snd (g_q2 g)] else []) ++ [map fst (g_store g)]
                ++ (if k_pm c && k_inorder c then [map snd (g_q3 g)] else []) in
      Z.of_nat (g_sem g) :: Z.of_nat (length qs) :: flat_map zq qs
  end.
Definition ocobs (o : cobs) : obs :=
  match o with
  | ObsItem x => OL [OS "item"%string; onat x]
  | ObsStop => OL [OS "stop"%string]
  | ObsErr 0 => OL [OS "err"%string; OS "src"%string]
  | ObsErr 1 => OL [OS "err"%string; OS "udf"%string]
  | ObsErr _ => OL [OS "err"%string; OS "dup"%string]
  | ObsState p n => OL [OS "state"%string; onat p; onat n]
  | ObsReset => OL [OS "reset"%string]
  | ObsShut => OL [OS "shutdown"%string]
  | ObsFFErr => OL [OS "err"%string; OS "ff"%string]
  end.

Fixpoint replay (c : cfg) (tr : list (tid * mode)) (s : state) : list obs * state :=
  match tr with
  | [] => ([], s)
  | ch :: rest =>
      let lb := match pending c s (fst ch) with Some (l, _, _) => zlab l | None => (-1)%Z end in
      let mv := map zmove (moves c s) in
      let s' := step c s ch in
      let '(os, sf) := replay c rest s' in
      (olz ([Z.of_nat (ntid (fst ch)); lb; zmode (snd ch); Z.of_nat (length mv)] ++ mv ++ zdigest c s') :: os, sf)
  end.

Definition live_tids (c : cfg) (s : state) : list tid :=
  filter (fun t => match pending c s t with Some _ => true | None => false end) (all_tids c s).

Definition conc_obs (c : cfg) (script : list cop) (tr : list (tid * mode)) : obs :=
  let '(steps, s) := replay c tr (init script) in
  OL [olist ocobs (s_obs s); OL steps; OB (s_overlap s); olz (map (fun t => Z.of_nat (ntid t)) (live_tids c s))].

(* udf used by the harness: x -> x + add, raising on the listed values *)
Definition udf (add : nat) (bad : list nat) (x : nat) : option nat :=
  if existsb (Nat.eqb x) bad then None else Some (x + add).

(* the same with falsy results: on the listed values the real map_fn returns None (observed as item 0) *)
Definition udfn (add : nat) (bad nones : list nat) (x : nat) : option nat :=
  if existsb (Nat.eqb x) bad then None else if existsb (Nat.eqb x) nones then Some 0 else Some (x + add).
