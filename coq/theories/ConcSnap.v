(* ConcSnap.v — C06 for the Prefetcher (_SingleThreadedMapper): in EVERY reachable state of EVERY schedule without a
   reader-join timeout, the state the consumer would hand out satisfies
        snapshot + steps_since_snapshot = (position the iterator was started at) + (items the consumer has received)
   i.e. it denotes exactly the consumer's position, never the read-ahead thread's.
   Per-generation invariant PFinv (reader position, store contents, consecutive queue indices, what the consumer holds),
   lifted to the global state on top of ConcOwner's single-ownership invariant. *)
From Coq Require Import List Arith Bool Lia.
From RecordUpdate Require Import RecordUpdate.
From PD Require Import ConcModel ConcInv ConcLive ConcOwner.
Import ListNotations.
Open Scope nat_scope.

Section PF.
Variable c : cfg.
Hypothesis Hpf : k_pm c = false.

Definition rpend (p : rpc) : nat := match p with RStore _ _ _ | RPut _ _ _ => 1 | _ => 0 end.
Definition not_udf (p : payload) : Prop := p <> PErr 1.

Definition RPos (g : gen) (pos : nat) : Prop :=
  match g_r g with
  | RStart => pos = g_base g /\ g_ridx g = 0 /\ g_ryield g = 0 /\ g_store g = []
  | RInitPut p => p = g_base g /\ pos = g_base g /\ g_ridx g = 0 /\ g_ryield g = 0 /\ g_store g = []
  | RChk | RAcq | RPull => pos = g_base g + g_ridx g /\ g_ryield g = g_ridx g
  | RStore x i sp => S i = g_ridx g /\ sp = pos /\ pos = g_base g + g_ridx g /\ g_ryield g = g_ridx g
  | RPut p i last => S i = g_ridx g /\ not_udf p /\ (last = false -> pos = g_base g + g_ridx g /\ g_ryield g = g_ridx g)
  | RDone => True
  end.

Definition in_endpath (p : cpc) : bool := match p with CRelStop | CRelErr _ _ | CSetStop _ => true | _ => false end.
Definition holds_item (p : cpc) : nat := match p with CRel _ _ => 1 | _ => 0 end.
Definition pf_pc (p : cpc) : bool :=
  match p with CChk2 | CStopA | CStopB | CShSet2 | CSleep => false | _ => true end.

Record PFinv (g : gen) (pos : nat) : Prop := {
  p_rpos : RPos g pos;
  p_store : forall v p, In (v, p) (g_store g) -> p = g_base g + v;
  p_q : map snd (g_q1 g) = seq (g_taken g) (length (g_q1 g));
  p_qp : Forall (fun e => not_udf (fst e)) (g_q1 g);
  p_cnt : g_taken g + length (g_q1 g) + rpend (g_r g) = g_ridx g;
  p_hold : forall x i, (g_c g = CRel x i \/ (exists e, g_c g = CRelErr e i)) -> S i = g_taken g;
  p_recv : g_term g = false -> g_recv g + holds_item (g_c g) = g_taken g;
  p_term : g_term g = true -> in_endpath (g_c g) = true \/ g_stop g = true;
  p_get : (g_c g = CGet \/ exists x i, g_c g = CRel x i) -> g_term g = false /\ g_stop g = false;
  p_init : g_c g = CInit -> (g_store g = [] /\ (g_r g = RStart \/ exists p, g_r g = RInitPut p)) \/
                           (exists rest, g_store g = (0, g_base g) :: rest);
  p_pc : pf_pc (g_c g) = true;
  p_ws : g_ws g = [] /\ g_s g = SDone;
  p_main : g_snap g + g_steps g = g_base g + g_recv g;
  p_snap0 : g_c g = CInit -> g_snap g = g_base g }.

(* ---------------------------------------------------------------------------------------------------------- *)
Ltac crush_hyps :=
  intros; repeat match goal with
                 | H : _ \/ _ |- _ => destruct H
                 | H : exists _, _ |- _ => destruct H
                 | H : _ /\ _ |- _ => destruct H
                 end; try discriminate; try contradiction.

Lemma pf_new base ff : PFinv (new_gen c base ff) base.
Proof.
  unfold new_gen. rewrite Hpf. cbn. constructor; cbn; crush_hyps; auto; try lia;
    try (unfold RPos; cbn; repeat split; reflexivity); try (left; split; [reflexivity | left; reflexivity]).
Qed.

(* the reader's steps: the consumer-side fields are untouched *)
Lemma init_frame g g' r : g_c g' = g_c g -> g_store g' = g_store g -> g_base g' = g_base g ->
  (forall p, r <> RStart /\ r <> RInitPut p) ->
  (g_c g = CInit -> (g_store g = [] /\ (r = RStart \/ exists p, r = RInitPut p)) \/ (exists rest, g_store g = (0, g_base g) :: rest)) ->
  (g_c g' = CInit -> (g_store g' = [] /\ (g_r g' = RStart \/ exists p, g_r g' = RInitPut p)) \/ (exists rest, g_store g' = (0, g_base g') :: rest)).
Proof.
  intros E1 E2 E3 Hr INI Hc. rewrite E1 in Hc. destruct (INI Hc) as [[_ [Hx|[p Hx]]]|Hx].
  - exfalso. apply (proj1 (Hr 0)), Hx.
  - exfalso. apply (proj2 (Hr p)), Hx.
  - right. rewrite E2, E3. exact Hx.
Qed.

Lemma pf_rstep m g pos : PFinv g pos -> PFinv (fst (rstep c m g pos)) (snd (rstep c m g pos)).
Proof.
  intros [R ST Q QP CNT HO RC TE GE INI PC WS MAIN SN0]. unfold rstep. unfold RPos in R.
  destruct (g_r g) eqn:Er; cbn [fst snd].
  - (* RStart: state_dict() *)
    destruct R as (R1 & R2 & R3 & R4).
    constructor; [ | exact ST | exact Q | exact QP | | exact HO | exact RC | exact TE | exact GE | | exact PC | exact WS | exact MAIN | exact SN0].
    + unfold RPos. cbn. repeat split; auto.
    + cbn. rewrite ?Er in CNT. exact CNT.
    + cbn. intros Hc. left. split; [exact R4 | right; eexists; reflexivity].
  - (* RInitPut: the initial snapshot enters the store *)
    destruct R as (R1 & R2 & R3 & R4 & R5).
    constructor; [ | | exact Q | exact QP | | exact HO | exact RC | exact TE | exact GE | | exact PC | exact WS | exact MAIN | exact SN0].
    + unfold RPos. cbn. split; lia.
    + cbn. intros v q Hin. rewrite R5 in Hin. cbn in Hin. destruct Hin as [Hin|[]]. injection Hin as <- <-. lia.
    + cbn. rewrite ?Er in CNT. exact CNT.
    + cbn. intros Hc. right. rewrite R5. cbn. rewrite R1. eexists; reflexivity.
  - (* RChk *)
    assert (forall p', rpend p' = 0 -> RPos (g <| g_r := p' |>) pos -> PFinv (g <| g_r := p' |>) pos) as HB.
    { intros p' Hp HR. constructor; [exact HR | exact ST | exact Q | exact QP | | exact HO | exact RC | exact TE | exact GE | | exact PC | exact WS | exact MAIN | exact SN0].
      - cbn. rewrite ?Er in CNT. cbn in CNT. rewrite Hp. exact CNT.
      - (match goal with |- g_c ?g' = CInit -> _ => refine (init_frame g g' _ eq_refl eq_refl eq_refl _ INI) end); intros p0; split; discriminate. }
    destruct (g_stop g); apply HB; try reflexivity; unfold RPos; cbn; auto.
  - (* RAcq *)
    assert (forall g1 p', rpend p' = 0 -> g1 = g \/ (exists n, g1 = g <| g_sem := n |>) -> RPos (g1 <| g_r := p' |>) pos -> PFinv (g1 <| g_r := p' |>) pos) as HB.
    { intros g1 p' Hp [->|[n ->]] HR;
        (constructor; [exact HR | exact ST | exact Q | exact QP | | exact HO | exact RC | exact TE | exact GE | | exact PC | exact WS | exact MAIN | exact SN0];
         [cbn; rewrite ?Er in CNT; cbn in CNT; rewrite Hp; exact CNT |
          (match goal with |- g_c ?g' = CInit -> _ => refine (init_frame g g' _ eq_refl eq_refl eq_refl _ INI) end); intros p0; split; discriminate]). }
    destruct m; [destruct (g_sem g) as [|n] eqn:Es|].
    + cbn. constructor; [unfold RPos; rewrite Er; exact R | exact ST | exact Q | exact QP | rewrite Er; exact CNT | exact HO | exact RC | exact TE | exact GE | rewrite Er; exact INI | exact PC | exact WS | exact MAIN | exact SN0].
    + apply (HB (g <| g_sem := n |>) RPull); [reflexivity | right; eexists; reflexivity | unfold RPos; cbn; exact R].
    + apply (HB g RChk); [reflexivity | left; reflexivity | unfold RPos; cbn; exact R].
  - (* RPull: the item is taken out of the source *)
    destruct R as [R1 R2]. rewrite ?Er in CNT. cbn in CNT.
    assert (forall g', g_c g' = g_c g -> g_store g' = g_store g -> g_base g' = g_base g ->
                       (g_c g' = CInit -> (g_store g' = [] /\ (g_r g' = RStart \/ exists p, g_r g' = RInitPut p)) \/
                                          (exists rest, g_store g' = (0, g_base g') :: rest))) as HINI.
    { intros g' E1 E2 E3. refine (init_frame g g' _ E1 E2 E3 _ INI). intros p0. split; discriminate. }
    destruct (match k_err c with Some e => e =? pos | None => false end).
    + constructor; [ | exact ST | exact Q | exact QP | | exact HO | exact RC | exact TE | exact GE | | exact PC | exact WS | exact MAIN | exact SN0].
      * unfold RPos. cbn. repeat split; auto; try congruence; try (intros Hd; discriminate).
      * cbn. lia.
      * apply HINI; reflexivity.
    + destruct (nth_error (k_xs c) pos) as [x|].
      * destruct ((0 <? k_sf c) && (S (g_ryield g) mod k_sf c =? 0));
          (constructor; [ | exact ST | exact Q | exact QP | | exact HO | exact RC | exact TE | exact GE | | exact PC | exact WS | exact MAIN | exact SN0];
           [unfold RPos; cbn; repeat split; try lia; try (intros Hd; discriminate); try (intros _; lia) | cbn; lia | apply HINI; reflexivity]).
      * constructor; [ | exact ST | exact Q | exact QP | | exact HO | exact RC | exact TE | exact GE | | exact PC | exact WS | exact MAIN | exact SN0].
        -- unfold RPos. cbn. repeat split; auto; try congruence; try (intros Hd; discriminate).
        -- cbn. lia.
        -- apply HINI; reflexivity.
  - (* RStore: the snapshot is stored before the item is enqueued *)
    destruct R as (R1 & R2 & R3 & R4).
    constructor; [ | | exact Q | exact QP | | exact HO | exact RC | exact TE | exact GE | | exact PC | exact WS | exact MAIN | exact SN0].
    + unfold RPos. cbn. repeat split; try lia; try (intros Hd; discriminate).
    + cbn. intros v q Hin. apply in_app_or in Hin. destruct Hin as [Hin|[Hin|[]]]; [apply ST, Hin|]. injection Hin as <- <-. lia.
    + cbn. rewrite ?Er in CNT. exact CNT.
    + cbn. intros Hc. destruct (INI Hc) as [[_ [Hx|[p Hx]]]|[rest Hr]]; [discriminate | discriminate |].
      right. rewrite Hr. cbn. eexists; reflexivity.
  - (* RPut: the entry becomes visible *)
    destruct R as (R1 & R2 & R3). rewrite ?Er in CNT. cbn in CNT.
    assert (i = g_taken g + length (g_q1 g)) as Ei by lia.
    assert (forall r', rpend r' = 0 -> RPos (g <| g_q1 ::= fun q => q ++ [(p, i)] |> <| g_r := r' |>) pos ->
                       PFinv (g <| g_q1 ::= fun q => q ++ [(p, i)] |> <| g_r := r' |>) pos) as HP.
    { intros r' Hr' HR.
      constructor; [exact HR | exact ST | | | | exact HO | exact RC | exact TE | exact GE | | exact PC | exact WS | exact MAIN | exact SN0].
      - cbn. rewrite map_app, app_length, seq_app, Q. cbn. rewrite Ei. reflexivity.
      - cbn. apply Forall_app. split; [exact QP | constructor; [exact R2 | constructor]].
      - cbn. rewrite app_length, Hr'. cbn. lia.
      - (match goal with |- g_c ?g' = CInit -> _ => refine (init_frame g g' _ eq_refl eq_refl eq_refl _ INI) end); intros p0; split; discriminate. }
    destruct last; apply HP; try reflexivity; unfold RPos; cbn; auto.
  - (* RDone *)
    cbn. constructor; [unfold RPos; rewrite Er; exact I | exact ST | exact Q | exact QP | rewrite Er; exact CNT | exact HO | exact RC | exact TE | exact GE | rewrite Er; exact INI | exact PC | exact WS | exact MAIN | exact SN0].
Qed.

(* ---------------------------------------------------------------------------------------------------------- *)
(* the consumer's steps *)
Lemma rpos_frame g g' pos : RPos g pos -> g_r g' = g_r g -> g_base g' = g_base g -> g_ridx g' = g_ridx g ->
  g_ryield g' = g_ryield g -> (g_store g = [] -> g_store g' = []) -> RPos g' pos.
Proof.
  unfold RPos. intros R E1 E2 E3 E4 E5. rewrite E1, E2, E3, E4. destruct (g_r g); auto.
  - destruct R as (R1 & R2 & R3 & R4). auto.
  - destruct R as (R1 & R2 & R3 & R4 & R5). auto 6.
Qed.

Lemma skipn_incl {A} k (l : list A) e : In e (skipn k l) -> In e l.
Proof. revert l. induction k as [|k IH]; intros l H; cbn in H; [exact H|]. destruct l as [|a l]; [contradiction | right; apply IH, H]. Qed.

Lemma pop_version_incl v l e : In e (snd (pop_version v l)) -> In e l.
Proof. destruct (pop_version_rest v l) as (k & Ek & _). rewrite Ek. apply skipn_incl. Qed.

Lemma pop_version_nil v : pop_version v [] = (None, []).
Proof. reflexivity. Qed.

Lemma outq_pf g : outq c g = g_q1 g.
Proof. unfold outq. rewrite Hpf. reflexivity. Qed.
Lemma set_outq_pf q g : set_outq c q g = g <| g_q1 := q |>.
Proof. unfold set_outq. rewrite Hpf. reflexivity. Qed.

Lemma after_join_pc g k : exists p, fst (after_join c g k) = g <| g_c := p |> /\ (p = CIdle \/ exists k', p = CShJoin k').
Proof. unfold after_join. destruct (next_join c g k (2 + k_nw c - k)) as [k'|]; cbn; eexists; split; eauto. Qed.

(* changing only the consumer's program counter to one that holds nothing and is not part of next()'s data path *)
Lemma pf_quiet_pc g pos p : PFinv g pos -> (g_term g = true -> g_stop g = true) ->
  (p = CIdle \/ (exists k', p = CShJoin k') \/ p = CChk \/ p = CShSet) -> holds_item (g_c g) = 0 ->
  PFinv (g <| g_c := p |>) pos.
Proof.
  intros [R ST Q QP CNT HO RC TE GE INI PC WS MAIN SN0] Hts Hp Hh.
  constructor; [exact R | exact ST | exact Q | exact QP | exact CNT | | | | | | | exact WS | exact MAIN | ]; cbn.
  - intros x i [H|[e H]]; destruct Hp as [->|[[k' ->]|[->| ->]]]; discriminate.
  - intros Ht. rewrite <- (RC Ht), Hh. destruct Hp as [->|[[k' ->]|[->| ->]]]; reflexivity.
  - intros Ht. right. apply Hts, Ht.
  - intros [H|[x [i H]]]; destruct Hp as [->|[[k' ->]|[->| ->]]]; discriminate.
  - intros H; destruct Hp as [->|[[k' ->]|[->| ->]]]; discriminate.
  - destruct Hp as [->|[[k' ->]|[->| ->]]]; reflexivity.
  - intros H; destruct Hp as [->|[[k' ->]|[->| ->]]]; discriminate.
Qed.

Lemma pf_cstep m g pos : PFinv g pos -> PFinv (fst (cstep c m g)) pos.
Proof.
  intros H. pose proof H as [R ST Q QP CNT HO RC TE GE INI PC WS MAIN SN0]. unfold cstep. rewrite outq_pf, Hpf.
  destruct (g_c g) eqn:Ec; try (cbn in PC; discriminate).
  - (* CIdle *) exact H.
  - (* CInit: the initial snapshot is received *)
    destruct m; [|exact H]. destruct (g_store g) as [|[v sp] tl] eqn:Es; [exact H|]. cbn [fst].
    destruct (INI eq_refl) as [[Hx _]|[rest Hr]]; [discriminate|]. injection Hr as -> -> ->.
    constructor; cbn.
    + apply (rpos_frame g); auto. intros Hn. rewrite ?Es in Hn. discriminate.
    + intros v q Hin. apply ST. rewrite ?Es. right. exact Hin.
    + exact Q. + exact QP. + exact CNT.
    + intros x i [Hx|[e Hx]]; discriminate.
    + intros Ht. apply (RC Ht).
    + intros Ht. destruct (TE Ht) as [Hx|Hx]; [discriminate | right; exact Hx].
    + intros [Hx|[x [i Hx]]]; discriminate.
    + intros Hx; discriminate.
    + reflexivity. + exact WS.
    + rewrite (SN0 eq_refl) in MAIN. exact MAIN.
    + intros Hx; discriminate.
  - (* CChk *)
    destruct (g_stop g) eqn:Est; cbn [fst].
    + apply pf_quiet_pc; auto. rewrite Ec. reflexivity.
    + assert (g_term g = false) as Htf.
      { destruct (g_term g) eqn:Et; [|reflexivity]. destruct (TE eq_refl) as [Hx|Hx]; [discriminate | congruence]. }
      constructor; [apply (rpos_frame g); auto | exact ST | exact Q | exact QP | exact CNT | | | | | | | exact WS | exact MAIN | ]; cbn.
      * intros x i [Hx|[e Hx]]; discriminate.
      * intros Ht. apply (RC Ht).
      * intros Ht. congruence.
      * intros _. split; assumption.
      * intros Hx; discriminate.
      * reflexivity.
      * intros Hx; discriminate.
  - (* CGet *)
    destruct (GE (or_introl eq_refl)) as [Htf Hsf].
    destruct m.
    + destruct (g_q1 g) as [|[p i] tl] eqn:Eq; [exact H|]. rewrite set_outq_pf.
      cbn in Q. injection Q as Ei Qt. cbn in CNT. inversion QP as [|? ? Hp QPt]; subst. cbn in Hp.
      assert (forall g1, g_r g1 = g_r g -> g_base g1 = g_base g -> g_ridx g1 = g_ridx g -> g_ryield g1 = g_ryield g -> g_store g1 = g_store g ->
                         RPos g1 pos) as HR by (intros g1 E1 E2 E3 E4 E5; apply (rpos_frame g); auto; intros Hn; rewrite E5; exact Hn).
      destruct p as [x| |e]; cbn [fst].
      * (* an item: the consumer now holds entry number taken *)
        constructor; [apply HR; reflexivity | exact ST | | exact QPt | | | | | | | | exact WS | exact MAIN | ]; cbn.
        -- exact Qt.
        -- lia.
        -- intros x0 i0 [Hx|[e Hx]]; [injection Hx as -> ->; reflexivity | discriminate].
        -- intros _. specialize (RC Htf). cbn in RC. lia.
        -- intros Ht. congruence.
        -- intros _. split; assumption.
        -- intros Hx; discriminate.
        -- reflexivity.
        -- intros Hx; discriminate.
      * (* StopIteration *)
        constructor; [apply HR; reflexivity | exact ST | | exact QPt | | | | | | | | exact WS | exact MAIN | ]; cbn.
        -- exact Qt.
        -- lia.
        -- intros x0 i0 [Hx|[e Hx]]; discriminate.
        -- intros Hx; discriminate.
        -- intros _. left. reflexivity.
        -- intros [Hx|[x [i0 Hx]]]; discriminate.
        -- intros Hx; discriminate.
        -- reflexivity.
        -- intros Hx; discriminate.
      * (* an error reported by the reader *)
        assert (e <> 1) as He by (intros ->; apply Hp; reflexivity).
        assert ((match e with 1 => g_term g | _ => true end) = true) as Hte by (destruct e as [|[|e]]; [reflexivity | congruence | reflexivity]).
        constructor; [apply HR; reflexivity | exact ST | | exact QPt | | | | | | | | exact WS | exact MAIN | ]; cbn.
        -- exact Qt.
        -- lia.
        -- intros x0 i0 [Hx|[e0 Hx]]; [discriminate | injection Hx as _ ->; reflexivity].
        -- rewrite Hte. intros Hx; discriminate.
        -- intros _. left. reflexivity.
        -- intros [Hx|[x [i0 Hx]]]; discriminate.
        -- intros Hx; discriminate.
        -- reflexivity.
        -- intros Hx; discriminate.
    + cbn [fst]. apply pf_quiet_pc; auto; [congruence | rewrite Ec; reflexivity].
  - (* CRel: the item is handed to the user; its snapshot, if any, is adopted *)
    destruct (GE (or_intror (ex_intro _ x (ex_intro _ i eq_refl)))) as [Htf Hsf].
    pose proof (HO x i (or_introl eq_refl)) as Hi. specialize (RC Htf). cbn in RC.
    destruct (pop_version (S i) (g_store g)) as [res rest] eqn:Epop. cbn [fst].
    assert (forall e, In e rest -> In e (g_store g)) as Hsub by (intros e He; apply (pop_version_incl (S i)); rewrite Epop; exact He).
    assert (g_store g = [] -> rest = []) as Hnil by (intros Hn; rewrite Hn in Epop; cbn in Epop; congruence).
    assert (forall g1, g_r g1 = g_r g -> g_base g1 = g_base g -> g_ridx g1 = g_ridx g -> g_ryield g1 = g_ryield g -> g_store g1 = rest ->
                       RPos g1 pos) as HR by (intros g1 E1 E2 E3 E4 E5; apply (rpos_frame g); auto; intros Hn; rewrite E5; apply Hnil, Hn).
    destruct res as [sp|].
    + assert (In (S i, sp) (g_store g)) as Hin by (apply pop_version_exact; rewrite Epop; reflexivity).
      constructor; [apply HR; reflexivity | | exact Q | exact QP | exact CNT | | | | | | | exact WS | | ]; cbn.
      * intros v q Hq. apply ST, Hsub, Hq.
      * intros x0 i0 [Hx|[e Hx]]; discriminate.
      * intros _. lia.
      * intros Ht. congruence.
      * intros [Hx|[x0 [i0 Hx]]]; discriminate.
      * intros Hx; discriminate.
      * reflexivity.
      * rewrite (ST _ _ Hin). lia.
      * intros Hx; discriminate.
    + constructor; [apply HR; reflexivity | | exact Q | exact QP | exact CNT | | | | | | | exact WS | | ]; cbn.
      * intros v q Hq. apply ST, Hsub, Hq.
      * intros x0 i0 [Hx|[e Hx]]; discriminate.
      * intros _. lia.
      * intros Ht. congruence.
      * intros [Hx|[x0 [i0 Hx]]]; discriminate.
      * intros Hx; discriminate.
      * reflexivity.
      * lia.
      * intros Hx; discriminate.
  - (* CRelStop *)
    cbn [fst]. constructor; [apply (rpos_frame g); auto | exact ST | exact Q | exact QP | exact CNT | | | | | | | exact WS | exact MAIN | ]; cbn.
    + intros x i [Hx|[e Hx]]; discriminate.
    + intros Ht. apply (RC Ht).
    + intros _. left. reflexivity.
    + intros [Hx|[x [i Hx]]]; discriminate.
    + intros Hx; discriminate.
    + reflexivity.
    + intros Hx; discriminate.
  - (* CRelErr *)
    cbn [fst]. constructor; [apply (rpos_frame g); auto | exact ST | exact Q | exact QP | exact CNT | | | | | | | exact WS | exact MAIN | ]; cbn.
    + intros x i0 [Hx|[e0 Hx]]; discriminate.
    + intros Ht. apply (RC Ht).
    + intros _. left. reflexivity.
    + intros [Hx|[x [i0 Hx]]]; discriminate.
    + intros Hx; discriminate.
    + reflexivity.
    + intros Hx; discriminate.
  - (* CSetStop *)
    cbn [fst]. constructor; [apply (rpos_frame g); auto | exact ST | exact Q | exact QP | exact CNT | | | | | | | exact WS | exact MAIN | ]; cbn.
    + intros x i [Hx|[e0 Hx]]; discriminate.
    + intros Ht. apply (RC Ht).
    + intros _. right. reflexivity.
    + intros [Hx|[x [i Hx]]]; discriminate.
    + intros Hx; discriminate.
    + reflexivity.
    + intros Hx; discriminate.
  - (* CShSet: _shutdown *)
    destruct (after_join_pc (g <| g_stop := true |>) 0) as (p & -> & Hp).
    assert (PFinv (g <| g_stop := true |>) pos) as H1.
    { constructor; [apply (rpos_frame g); auto | exact ST | exact Q | exact QP | exact CNT | | | | | | | exact WS | exact MAIN | ]; cbn; rewrite ?Ec.
      - intros x i [Hx|[e0 Hx]]; discriminate.
      - intros Ht. apply (RC Ht).
      - intros _. right. reflexivity.
      - intros [Hx|[x [i Hx]]]; discriminate.
      - intros Hx; discriminate.
      - reflexivity.
      - intros Hx; discriminate. }
    apply (pf_quiet_pc _ pos p H1); [reflexivity | destruct Hp as [->|[k' ->]]; [left; reflexivity | right; left; eexists; reflexivity] | cbn; rewrite Ec; reflexivity].
  - (* CShJoin *)
    assert (g_term g = true -> g_stop g = true) as Hts by (intros Ht; destruct (TE Ht) as [Hx|Hx]; [discriminate | exact Hx]).
    destruct (after_join_pc g (S k)) as (p & Ep & Hp).
    assert (PFinv (fst (after_join c g (S k))) pos) as HA.
    { rewrite Ep. apply pf_quiet_pc; auto; [destruct Hp as [->|[k' ->]]; [left; reflexivity | right; left; eexists; reflexivity] | rewrite Ec; reflexivity]. }
    destruct m; destruct (stage_alive c g k); cbn [fst]; auto.
Qed.

End PF.

(* ---------------------------------------------------------------------------------------------------------- *)
(* lifting a per-generation invariant P (over the generation and the shared source position) to every reachable state:
   generic in P, given its closure under the reader's and the consumer's steps *)
Section Lift.
Variable c : cfg.
Variable P : gen -> nat -> Prop.
Hypothesis P_new : forall base ff, P (new_gen c base ff) base.
Hypothesis P_ff : forall g pos n, P g pos -> P (g <| g_ff := n |>) pos.
Hypothesis P_idle_pc : forall g pos p, P g pos -> g_c g = CIdle -> (p = CChk \/ p = CShSet) -> P (g <| g_c := p |>) pos.
Hypothesis P_cstep : forall m g pos, P g pos -> P (fst (cstep c m g)) pos.
Hypothesis P_rstep : forall m g pos, P g pos -> P (fst (rstep c m g pos)) (snd (rstep c m g pos)).
Hypothesis P_wstep : forall i m g pos, P g pos -> P (wstep c i m g) pos.
Hypothesis P_sstep : forall m g pos, P g pos -> P (sstep c m g) pos.

Definition Pcur (s : state) : Prop := forall g, cur s = Some g -> P g (s_pos s).

Lemma pcur_frame s s' : Pcur s -> s_gens s' = s_gens s -> s_pos s' = s_pos s -> Pcur s'.
Proof. intros H E1 E2 g Hg. unfold cur in Hg. rewrite E1 in Hg. rewrite E2. apply H, Hg. Qed.

Lemma pcur_set_cur s g : P g (s_pos s) -> Pcur (set_cur g s).
Proof. intros H g0 E. rewrite cur_set_cur in E. injection E as <-. exact H. Qed.

Lemma pcur_construct l s : Pcur (construct c l s).
Proof.
  unfold construct. destruct (match l with Some j => nth j (s_states s) (0, 0) | None => (0, 0) end) as [base ff].
  intros g E. unfold cur in E. cbn in E. rewrite map_app in E. cbn in E. rewrite last_app_single in E. injection E as <-.
  cbn. apply P_new.
Qed.

Definition CurIdleP (s : state) : Prop := forall g, cur s = Some g -> g_c g = CIdle.

Lemma p_dispatch : forall todo s, Pcur s -> CurIdleP s -> Pcur (dispatch c todo s).
Proof.
  induction todo as [|a t IH]; intros s H Hi; cbn.
  - apply (pcur_frame s); auto.
  - destruct a; destruct (cur s) as [g|] eqn:Ec.
    all: try (apply (pcur_frame s); auto; fail).
    + apply (pcur_frame (set_cur (g <| g_c := CChk |>) s)); auto. apply pcur_set_cur, P_idle_pc; auto.
    + apply IH; [apply (pcur_frame s); auto | intros g0 E0; apply Hi; exact E0].
    + apply (pcur_frame (set_cur (g <| g_c := CShSet |>) s)); auto. apply pcur_set_cur, P_idle_pc; auto.
    + apply (pcur_frame (construct c load s)); auto. apply pcur_construct.
    + apply (pcur_frame (set_cur (g <| g_c := CShSet |>) s)); auto. apply pcur_set_cur, P_idle_pc; auto.
    + apply (pcur_frame (construct c load s)); auto. apply pcur_construct.
    + apply (pcur_frame (construct c load s)); auto. apply pcur_construct.
    + apply IH; [apply (pcur_frame s); auto | intros g0 E0; apply Hi; exact E0].
    + apply IH; [apply (pcur_frame s); auto | intros g0 E0; apply Hi; exact E0].
Qed.

Lemma p_complete o s g : cur s = Some g -> g_c g = CIdle -> P g (s_pos s) -> Pcur (complete c o s).
Proof.
  intros Ec Hc H. unfold complete. rewrite Ec.
  assert (Pcur s) as Hs by (intros g0 E0; rewrite Ec in E0; injection E0 as <-; exact H).
  assert (CurIdleP s) as Hi by (intros g0 E0; rewrite Ec in E0; injection E0 as <-; exact Hc).
  assert (forall ob, Pcur (log ob s) /\ CurIdleP (log ob s)) as Hlog.
  { intros ob. split; [apply (pcur_frame s); auto | intros g0 E0; apply Hi; exact E0]. }
  assert (forall n ob, Pcur (log ob (set_cur (g <| g_ff := n |>) s)) /\ CurIdleP (log ob (set_cur (g <| g_ff := n |>) s))) as Hff.
  { intros n ob. split.
    - apply (pcur_frame (set_cur (g <| g_ff := n |>) s)); auto. apply pcur_set_cur, P_ff, H.
    - intros g0 E0. unfold log, cur in E0. cbn in E0. rewrite map_app in E0. cbn in E0. rewrite last_app_single in E0. injection E0 as <-. exact Hc. }
  assert (forall n, Pcur (set_cur (g <| g_ff := n |> <| g_c := CChk |>) s)) as Hchk.
  { intros n. apply pcur_set_cur. apply (P_idle_pc (g <| g_ff := n |>)); [apply P_ff, H | exact Hc | left; reflexivity]. }
  destruct o; repeat match goal with |- context [match ?x with _ => _ end] => destruct x end.
  all: try (apply p_dispatch; [apply Hlog | apply Hlog]; fail).
  all: try (apply p_dispatch; [apply Hff | apply Hff]; fail).
  all: try (apply Hchk; fail).
  all: try (apply p_dispatch; assumption).
  all: try (apply (pcur_frame s); auto; fail).
  all: try (apply pcur_set_cur; apply P_idle_pc; auto; fail).
Qed.

Lemma p_step s ch : Own s -> (s_started s = false -> s_gens s = []) -> Pcur s -> Pcur (step c s ch).
Proof.
  intros Ho Hs0 H. destruct ch as [t m]. destruct t as [|gi [|i|]]; unfold step.
  - destruct (s_cdone s); [exact H|]. destruct (s_started s) eqn:Est; cbn [negb].
    2: { apply p_dispatch; [apply (pcur_frame s); auto|]. intros g E. exfalso.
         unfold cur in E. cbn in E. rewrite (Hs0 eq_refl) in E. discriminate. }
    destruct (cur s) as [g|] eqn:Ec; [|exact H].
    destruct (cstep c m g) as [g' o] eqn:Es.
    assert (P g' (s_pos s)) as Hg' by (replace g' with (fst (cstep c m g)) by (rewrite Es; reflexivity); apply P_cstep, H, Ec).
    destruct o as [o|]; [|apply pcur_set_cur, Hg'].
    apply (p_complete o (set_cur g' s) g'); [apply cur_set_cur | | exact Hg'].
    replace g' with (fst (cstep c m g)) by (rewrite Es; reflexivity). apply cstep_some_idle with (o := o). rewrite Es. reflexivity.
  - destruct (nth_error (s_gens s) gi) as [g|] eqn:En; [|exact H].
    destruct (rstep c m g (s_pos s)) as [g' pos'] eqn:Er.
    destruct (g_r g) eqn:Egr.
    all: try (
      assert (~ rdone g) as Hnd by (unfold rdone; rewrite Egr; discriminate);
      destruct (nth_last_split rdone _ _ _ En Hnd (o_old _ Ho)) as [Esplit Egi];
      assert (cur s = Some g) as Ec by (unfold cur; rewrite Esplit, map_app; cbn; apply last_app_single);
      assert (upd_nth gi (fun _ : gen => g') (s_gens s) = removelast (s_gens s) ++ [g']) as Eupd
        by (rewrite Egi; generalize Esplit; generalize (removelast (s_gens s)); intros pre0 E0; rewrite E0; apply upd_nth_app_last);
      intros g0 E0; unfold cur in E0; cbn in E0; rewrite Eupd, map_app in E0; cbn in E0; rewrite last_app_single in E0; injection E0 as <-;
      cbn; replace g' with (fst (rstep c m g (s_pos s))) by (rewrite Er; reflexivity);
      replace pos' with (snd (rstep c m g (s_pos s))) by (rewrite Er; reflexivity);
      apply P_rstep, H, Ec; fail).
    assert (rdone g) as Hd by exact Egr. rewrite (rstep_done c m g (s_pos s) Hd) in Er. injection Er as <- <-.
    rewrite (upd_nth_same _ _ _ En). apply (pcur_frame s); auto.
  - intros g' E. cbn.
    apply (cur_upd (fun g => P g (s_pos s)) (wstep c i m) gi s); [| exact E | exact H].
    intros x Hx. apply P_wstep, Hx.
  - intros g' E. cbn.
    apply (cur_upd (fun g => P g (s_pos s)) (sstep c m) gi s); [| exact E | exact H].
    intros x Hx. apply P_sstep, Hx.
Qed.

(* P holds of the current generation in every reachable state of every schedule without a reader-join timeout *)
Theorem p_reachable script sched : jt_free c (init script) sched = true -> Pcur (run c sched (init script)).
Proof.
  intros Hj. unfold run.
  assert (forall sch s, Own s -> Inv c s -> Pcur s -> jt_free c s sch = true -> Pcur (fold_left (step c) sch s)) as HG.
  { induction sch as [|ch sch IH]; intros s Ho Hi Hp Hjt; cbn in *; [exact Hp|].
    apply andb_true_iff in Hjt as [Hj1 Hj2]. apply negb_true_iff in Hj1.
    apply IH; [apply own_step; [exact Ho | exact (proj2 Hi) | exact Hj1] | apply inv_step, Hi | apply p_step; [exact Ho | exact (proj2 Hi) | exact Hp] | exact Hj2]. }
  apply HG; [apply own_init | apply inv_init | intros g0 E0; discriminate | exact Hj].
Qed.

End Lift.

(* ---------------------------------------------------------------------------------------------------------- *)
Section PFGlobal.
Variable c : cfg.
Hypothesis Hpf : k_pm c = false.

Lemma pf_ff g pos n : PFinv g pos -> PFinv (g <| g_ff := n |>) pos.
Proof. intros [R ST Q QP CNT HO RC TE GE INI PC WS MAIN SN0]. constructor; assumption. Qed.

Lemma pf_idle_pc g pos p : PFinv g pos -> g_c g = CIdle -> (p = CChk \/ p = CShSet) -> PFinv (g <| g_c := p |>) pos.
Proof.
  intros H Hc Hp. apply pf_quiet_pc; auto.
  - intros Ht. destruct (p_term _ _ H Ht) as [Hx|Hx]; [rewrite Hc in Hx; discriminate | exact Hx].
  - rewrite Hc. reflexivity.
Qed.

Lemma wstep_pf i m g pos : PFinv g pos -> wstep c i m g = g.
Proof. intros H. unfold wstep. rewrite (proj1 (p_ws _ _ H)). destruct i; reflexivity. Qed.
Lemma sstep_pf m g pos : PFinv g pos -> sstep c m g = g.
Proof. intros H. unfold sstep. rewrite (proj2 (p_ws _ _ H)). reflexivity. Qed.

(* C06 for the Prefetcher: along every schedule without a reader-join timeout, in every reachable state, what state_dict()
   would return (snapshot, steps_since_snapshot) of the current iterator denotes exactly the consumer's position *)
Theorem prefetcher_tracks_consumer script sched :
  jt_free c (init script) sched = true ->
  forall g, cur (run c sched (init script)) = Some g ->
  g_snap g + g_steps g = g_base g + g_recv g /\ g_snap g <= g_base g + g_recv g.
Proof.
  intros Hj g Eg.
  pose proof (p_reachable c PFinv (pf_new c Hpf) pf_ff pf_idle_pc (pf_cstep c Hpf) (pf_rstep c)
                (fun i m g pos H => eq_ind_r (fun x => PFinv x pos) H (wstep_pf i m g pos H))
                (fun m g pos H => eq_ind_r (fun x => PFinv x pos) H (sstep_pf m g pos H)) script sched Hj g Eg) as HP.
  pose proof (p_main _ _ HP) as HM. split; [exact HM | lia].
Qed.

End PFGlobal.

(* ---------------------------------------------------------------------------------------------------------- *)
(* C04 for the Prefetcher: what the consumer receives is the source, in order, each item once *)
Section PFData.
Variable c : cfg.
Hypothesis Hpf : k_pm c = false.

(* what next(source) produces at position pos *)
Definition spay (pos : nat) : payload :=
  if match k_err c with Some e => e =? pos | None => false end then PErr 0
  else match nth_error (k_xs c) pos with Some x => PItem x | None => PStop end.

Record PF2 (g : gen) : Prop := {
  d_q : Forall (fun e => fst e = spay (g_base g + snd e)) (g_q1 g);
  d_r : match g_r g with
        | RStore x i _ => PItem x = spay (g_base g + i)
        | RPut p i _ => p = spay (g_base g + i)
        | _ => True
        end;
  d_c : forall x i, g_c g = CRel x i -> PItem x = spay (g_base g + i);
  d_items : Forall2 (fun x k => PItem x = spay (g_base g + k)) (g_items g) (seq 0 (g_recv g)) }.

Definition PFall (g : gen) (pos : nat) : Prop := PFinv g pos /\ PF2 g.

Lemma pf2_new base ff : PF2 (new_gen c base ff).
Proof. unfold new_gen. rewrite Hpf. constructor; cbn; auto; try constructor; try (intros x i Hx; discriminate). Qed.

Lemma pf2_rstep m g pos : PFinv g pos -> PF2 g -> PF2 (fst (rstep c m g pos)).
Proof.
  intros HI [DQ DR DC DI]. pose proof (p_rpos _ _ HI) as R. unfold RPos in R. unfold rstep.
  destruct (g_r g) eqn:Er; cbn [fst].
  - constructor; cbn; auto.
  - constructor; cbn; auto.
  - destruct (g_stop g); constructor; cbn; auto.
  - destruct m; [destruct (g_sem g)|]; cbn; try (constructor; cbn; rewrite ?Er; auto; fail).
    all: constructor; cbn; auto.
  - (* RPull: exactly what the source has at this position *)
    destruct R as [R1 R2].
    assert (spay pos = spay (g_base g + g_ridx g)) as Hs by (rewrite R1; reflexivity).
    unfold spay in Hs at 1.
    destruct (match k_err c with Some e => e =? pos | None => false end) eqn:Ee.
    + constructor; cbn; auto.
    + destruct (nth_error (k_xs c) pos) as [x|] eqn:En.
      * destruct ((0 <? k_sf c) && (S (g_ryield g) mod k_sf c =? 0)); constructor; cbn; auto.
      * constructor; cbn; auto.
  - constructor; cbn; auto.
  - (* RPut *)
    constructor; cbn; auto.
    + apply Forall_app. split; [exact DQ | constructor; [exact DR | constructor]].
    + destruct last; exact I.
  - constructor; cbn; rewrite ?Er; auto.
Qed.

Lemma forall2_snoc {A B} (R : A -> B -> Prop) l1 l2 a b : Forall2 R l1 l2 -> R a b -> Forall2 R (l1 ++ [a]) (l2 ++ [b]).
Proof. induction 1; cbn; intros; constructor; auto. Qed.

Ltac d2 Ec := constructor; cbn; rewrite ?Ec; auto; try (let x0 := fresh in let i0 := fresh in let Hx := fresh in intros x0 i0 Hx; rewrite ?Ec in Hx; discriminate).

Lemma pf2_cstep m g pos : PFinv g pos -> PF2 g -> PF2 (fst (cstep c m g)).
Proof.
  intros HI [DQ DR DC DI]. unfold cstep. rewrite (outq_pf c Hpf), Hpf.
  destruct (g_c g) eqn:Ec; cbn [fst].
  - (* CIdle *) d2 Ec.
  - (* CSleep *) d2 Ec.
  - (* CInit *) destruct m; [destruct (g_store g) as [|[v sp] tl]|]; d2 Ec.
  - (* CChk *) destruct (g_stop g); d2 Ec.
  - (* CChk2 *) destruct (g_mpstop g); [|destruct ((g_done g || negb (r_alive g)) && (g_sem g =? kmax c))]; d2 Ec.
  - (* CStopA *) d2 Ec.
  - (* CStopB *) d2 Ec.
  - (* CGet *)
    destruct m; [|d2 Ec].
    destruct (g_q1 g) as [|[p i] tl] eqn:Eq; [d2 Ec; rewrite ?Eq; auto|].
    rewrite (set_outq_pf c Hpf). inversion DQ as [|? ? Hp DQt]; subst. cbn in Hp.
    destruct p as [x| |e]; constructor; cbn; auto; intros x0 i0 Hx; try discriminate.
    injection Hx as <- <-. exact Hp.
  - (* CRel: the item joins the received ones *)
    pose proof (p_hold _ _ HI x i (or_introl Ec)) as Hi.
    destruct (p_get _ _ HI (or_intror (ex_intro _ x (ex_intro _ i Ec)))) as [Htf _].
    pose proof (p_recv _ _ HI Htf) as Hr. rewrite Ec in Hr. cbn in Hr.
    assert (i = g_recv g) as -> by lia.
    destruct (pop_version (S (g_recv g)) (g_store g)) as [[sp|] rest]; constructor; cbn; auto; try (intros x0 i0 Hx; discriminate).
    all: change (0 :: seq 1 (g_recv g)) with (seq 0 (S (g_recv g))); rewrite seq_S; apply forall2_snoc; [exact DI | apply (DC x (g_recv g) eq_refl)].
  - (* CRelStop *) d2 Ec.
  - (* CRelErr *) d2 Ec.
  - (* CSetStop *) d2 Ec.
  - (* CShSet *) destruct (after_join_pc c (g <| g_stop := true |>) 0) as (p & -> & Hp).
    constructor; cbn; auto. intros x0 i0 Hx. destruct Hp as [->|[k' ->]]; discriminate.
  - (* CShSet2 *) destruct (after_join_pc c (g <| g_mpstop := true |>) 0) as (p & -> & Hp).
    constructor; cbn; auto. intros x0 i0 Hx. destruct Hp as [->|[k' ->]]; discriminate.
  - (* CShJoin *) destruct (after_join_pc c g (S k)) as (p & Ep & Hp).
    assert (PF2 (fst (after_join c g (S k)))) as HA.
    { rewrite Ep. constructor; cbn; auto. intros x0 i0 Hx. destruct Hp as [->|[k' ->]]; discriminate. }
    destruct m; destruct (stage_alive c g k); cbn [fst]; auto; d2 Ec.
Qed.

Lemma pfall_reachable script sched : jt_free c (init script) sched = true ->
  forall g, cur (run c sched (init script)) = Some g -> PFall g (s_pos (run c sched (init script))).
Proof.
  intros Hj.
  apply (p_reachable c PFall); auto.
  - intros base ff. split; [apply pf_new, Hpf | apply pf2_new].
  - intros g pos n [H1 [DQ DR DC DI]]. split; [apply pf_ff, H1 | constructor; assumption].
  - intros g pos p [H1 [DQ DR DC DI]] Hc Hp. split; [apply pf_idle_pc; auto|]. constructor; cbn; auto.
    intros x i Hx. destruct Hp as [->| ->]; discriminate.
  - intros m g pos [H1 H2]. split; [apply pf_cstep; auto | eapply pf2_cstep; eauto].
  - intros m g pos [H1 H2]. split; [apply pf_rstep; auto | eapply pf2_rstep; eauto].
  - intros i m g pos [H1 H2]. rewrite (wstep_pf c i m g pos H1). split; assumption.
  - intros m g pos [H1 H2]. rewrite (sstep_pf c m g pos H1). split; assumption.
Qed.

(* C04 (Prefetcher is the identity) + C06 together: along every schedule without a reader-join timeout, in every reachable
   state, the items the current iterator has handed to the consumer are exactly the source's items from the position it
   was started at, in order, each once — and its state denotes the position right after them *)
Theorem prefetcher_is_identity script sched : jt_free c (init script) sched = true ->
  forall g, cur (run c sched (init script)) = Some g ->
  g_items g = firstn (g_recv g) (skipn (g_base g) (k_xs c)) /\ g_snap g + g_steps g = g_base g + g_recv g.
Proof.
  intros Hj g Eg. destruct (pfall_reachable script sched Hj g Eg) as [H1 [DQ DR DC DI]].
  split; [|exact (p_main _ _ H1)].
  (* every received item sits at its index in the source *)
  assert (forall l n, Forall2 (fun x k => PItem x = spay (g_base g + k)) l (seq 0 n) -> l = firstn n (skipn (g_base g) (k_xs c))) as HF.
  { intros l n. revert l. induction n as [|n IH]; intros l HL.
    - inversion HL. reflexivity.
    - rewrite seq_S in HL. apply Forall2_app_inv_r in HL. destruct HL as (l1 & l2 & H1' & H2' & ->).
      inversion H2' as [|x k lx lk Hx Hrest]; subst. inversion Hrest; subst.
      rewrite (IH l1 H1'). cbn in Hx. unfold spay in Hx.
      destruct (match k_err c with Some e => e =? g_base g + n | None => false end); [discriminate|].
      destruct (nth_error (k_xs c) (g_base g + n)) as [y|] eqn:En; [|discriminate]. injection Hx as ->.
      assert (nth_error (skipn (g_base g) (k_xs c)) n = Some y) as En'.
      { clear -En. revert En. generalize (g_base g) (k_xs c). intros b l. revert l. induction b as [|b IHb]; intros l E; cbn in *; [exact E|].
        destruct l as [|a l]; [destruct (b + n); discriminate | apply IHb, E]. }
      clear -En'. revert n En'. generalize (skipn (g_base g) (k_xs c)). intros l. induction l as [|a l IHl]; intros [|n] E; cbn in *; try discriminate.
      + injection E as ->. reflexivity.
      + f_equal. apply IHl, E. }
  apply HF, DI.
Qed.

End PFData.
