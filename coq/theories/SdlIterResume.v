(* SdlIterResume.v — iterable datasets: an iterator built from a state dict (sdl_resume, the restore path).
   1. The MAIN-process side of a resume is exact for every arrival schedule: if the per-worker entries of the state dict restore
      workers whose remaining answers are described by a family B of batch lists, then the resumed iterator — after replaying
      the steps since the snapshot — yields exactly the rest of the walk over B from the slot after the last yielded worker,
      then StopIteration.
   2. With snapshot_every_n_steps = 0 (no snapshots: the state dict is the initial snapshot plus the number of steps) the
      whole statement C01 follows for every configuration, every k and every pair of arrival schedules. *)
From Coq Require Import List Arith Bool Lia.
From PD Require Import Base SdlModel SdlProofs SdlMapProofs SdlIterWorker SdlFault.
From PD Require Import SdlIterRef.
From PD Require Import SdlIterProofs.
Import ListNotations.
Open Scope nat_scope.

(* ------------------------------------------------------------------ *)
(* snapshot_every_n_steps = 0: the snapshot of the iterator never changes *)
Section NoSnapshots.
Variable c : cfg.
Hypothesis HI0 : c_I c = 0.

Lemma try_put_snap s : m_snapshot (try_put_index c s) = m_snapshot s.
Proof.
  unfold try_put_index, fail.
  repeat match goal with |- context [match ?x with _ => _ end] => destruct x end; reflexivity.
Qed.

Lemma skip_snap : forall fuel s, m_snapshot (snd (skip_retired fuel s)) = m_snapshot s.
Proof.
  induction fuel as [|f IH]; intros s; [reflexivity|]. cbn [skip_retired].
  destruct (m_rcvd s <? m_send s); [|reflexivity].
  destruct (info_get (m_info s) (m_rcvd s)) as [[w r]|].
  - destruct ((match r with Some _ => true | None => false end) || nth w (m_status s) false); [reflexivity|]. rewrite IH. reflexivity.
  - rewrite IH. reflexivity.
Qed.

Lemma process_data_snap s r w st : m_snapshot (snd (process_data c s r w st)) = m_snapshot s.
Proof.
  unfold process_data. rewrite HI0. cbn [Nat.eqb negb andb].
  destruct r; cbn [snd]; try apply try_put_snap.
  cbn [m_assert]. destruct (m_assert (try_put_index c s)); cbn [snd m_snapshot]; apply try_put_snap.
Qed.

Lemma arrive_snap s w : m_snapshot (snd (arrive c s w)) = m_snapshot s.
Proof.
  unfold arrive, fail. destruct (wk_q (nth w (m_workers s) wk_fresh)) as [|t q]; [destruct (m_assert s); reflexivity|].
  destruct (worker_fetch c w _ t) as [[r st] k']. reflexivity.
Qed.

Lemma next_data_snap : forall fuel s sched, m_snapshot (snd (fst (next_data fuel c s sched))) = m_snapshot s.
Proof.
  induction fuel as [|f IH]; intros s sched; [reflexivity|]. cbn [next_data].
  pose proof (skip_snap (S (m_send s)) s) as Hsk. destruct (skip_retired (S (m_send s)) s) as [found s1]. cbn [snd] in Hsk. rewrite <- Hsk. clear Hsk.
  destruct found; cbn [negb]; [|reflexivity].
  destruct (info_get (m_info s1) (m_rcvd s1)) as [[w [[r st]|]]|].
  - destruct r.
    + pose proof (process_data_snap (upd_core s1 (S (m_rcvd s1)) (info_del (m_info s1) (m_rcvd s1)) (m_wsnap s1)) (RData b) w st) as Hp.
      destruct (process_data c _ (RData b) w st) as [o s2]. exact Hp.
    + rewrite IH. reflexivity.
    + pose proof (process_data_snap (upd_core s1 (S (m_rcvd s1)) (info_del (m_info s1) (m_rcvd s1)) (m_wsnap s1)) RErr w st) as Hp.
      destruct (process_data c _ RErr w st) as [o s2]. exact Hp.
  -
    destruct (m_outst s1 =? 0); [reflexivity|].
    destruct (candidates s1) as [|c0 cs]; [reflexivity|].
    set (w2 := nth _ (c0 :: cs) 0).
    pose proof (arrive_snap s1 w2) as Ha. destruct (arrive c s1 w2) as [[[idx r2] st2] sa]. cbn [snd] in Ha. rewrite <- Ha. clear Ha.
    destruct r2.
    + destruct (negb (idx =? m_rcvd sa)); [rewrite IH; reflexivity|].
      pose proof (process_data_snap (upd_core sa (S (m_rcvd sa)) (info_del (m_info sa) idx) (m_wsnap sa)) (RData b) w2 st2) as Hp.
      destruct (process_data c _ (RData b) w2 st2) as [o s2]. exact Hp.
    + match goal with |- context [try_put_index c ?S] => pose proof (try_put_snap S) as Ht; set (sp := try_put_index c S) in * end.
      cbn [m_snapshot] in Ht.
      destruct (negb (idx =? m_rcvd sp)); rewrite IH; cbn [upd_core m_snapshot]; exact Ht.
    + destruct (negb (idx =? m_rcvd sa)); [rewrite IH; reflexivity|].
      pose proof (process_data_snap (upd_core sa (S (m_rcvd sa)) (info_del (m_info sa) idx) (m_wsnap sa)) RErr w2 st2) as Hp.
      destruct (process_data c _ RErr w2 st2) as [o s2]. exact Hp.
  -
    destruct (m_outst s1 =? 0); [reflexivity|].
    destruct (candidates s1) as [|c0 cs]; [reflexivity|].
    set (w2 := nth _ (c0 :: cs) 0).
    pose proof (arrive_snap s1 w2) as Ha. destruct (arrive c s1 w2) as [[[idx r2] st2] sa]. cbn [snd] in Ha. rewrite <- Ha. clear Ha.
    destruct r2.
    + destruct (negb (idx =? m_rcvd sa)); [rewrite IH; reflexivity|].
      pose proof (process_data_snap (upd_core sa (S (m_rcvd sa)) (info_del (m_info sa) idx) (m_wsnap sa)) (RData b) w2 st2) as Hp.
      destruct (process_data c _ (RData b) w2 st2) as [o s2]. exact Hp.
    + match goal with |- context [try_put_index c ?S] => pose proof (try_put_snap S) as Ht; set (sp := try_put_index c S) in * end.
      cbn [m_snapshot] in Ht.
      destruct (negb (idx =? m_rcvd sp)); rewrite IH; cbn [upd_core m_snapshot]; exact Ht.
    + destruct (negb (idx =? m_rcvd sa)); [rewrite IH; reflexivity|].
      pose proof (process_data_snap (upd_core sa (S (m_rcvd sa)) (info_del (m_info sa) idx) (m_wsnap sa)) RErr w2 st2) as Hp.
      destruct (process_data c _ RErr w2 st2) as [o s2]. exact Hp.
Qed.
End NoSnapshots.

Lemma replay_snap0 c : c_I c = 0 -> forall k s sched, m_snapshot (fst (replay c k s sched)) = m_snapshot s.
Proof.
  intros HI0. induction k as [|k IH]; intros s sched; [reflexivity|]. cbn [replay].
  pose proof (next_data_snap c HI0 (FUEL c s) s sched) as Hn. unfold sdl_next.
  destruct (next_data (FUEL c s) c s sched) as [[o s'] sched']. cbn [fst snd] in Hn. rewrite IH. exact Hn.
Qed.

Lemma iter_put_snap c : forall n s, m_snapshot (iter_n (try_put_index c) n s) = m_snapshot s.
Proof. induction n as [|n IH]; intros s; [reflexivity|]. cbn [iter_n]. rewrite IH. apply try_put_snap. Qed.

Section Resume.
Variable c : cfg.
Hypothesis Hkind : c_kind c = KIter.
Hypothesis HW : 0 < c_W c.
Hypothesis HP : 0 < c_P c.
Hypothesis Hst : c_stateful c = true.
Notation W := (c_W c).

Variable B : nat -> list (list nat).
Variable d : sdict.
Let sn := sd_snapshot d.
Let cyc0 := (S (sn_last sn)) mod W.
Let workers := map (fun sv : wsave => wk_restored (fst sv, snd sv)) (sn_workers sn).
Hypothesis Hws : workers_ok c B cyc0 workers.
Hypothesis Ha0 : forall w, w < W -> a0 cyc0 w <= nb B w.

Lemma cyc0_lt : cyc0 < W.
Proof. unfold cyc0. apply Nat.mod_upper_bound. lia. Qed.

Let wk0 : nat -> wk := fun w => nth w workers wk_fresh.

Lemma resume_entries_ok : entries_ok c wk0 true workers (sn_workers sn) sn.
Proof.
  destruct Hws as [Hlen _]. assert (length (sn_workers sn) = W) as Hl by (unfold workers in Hlen; rewrite map_length in Hlen; exact Hlen).
  split; [intros w Hw; split; reflexivity|]. split; [exact Hl|]. split; [|reflexivity].
  intros _ w Hw. unfold wk0, workers.
  change wk_fresh with ((fun sv : wsave => wk_restored (fst sv, snd sv)) (0, false)). rewrite map_nth. cbn.
  destruct (nth w (sn_workers sn) (0, false)); reflexivity.
Qed.

Lemma resume_state : forall sched, sd_steps d <= length (refsuf W B 0 cyc0) ->
  exists sr sched' gw rd a R, sdl_resume c d sched = (sr, sched') /\
    InvC c B cyc0 gw rd a R sr /\ Rest c B gw rd R sr (skipn (sd_steps d) (refsuf W B 0 cyc0)) /\ Act c gw rd a sr /\
    InvS c B (m_ny sr) gw rd sr /\ InvW c cyc0 wk0 true gw rd a sr /\ InvX c B cyc0 wk0 true gw rd sr /\
    m_ny sr = sn_step sn + sd_steps d /\ (sd_steps d = 0 \/ c_I c = 0 -> m_snapshot sr = sn).
Proof.
  intros sched Hsteps. unfold sdl_resume. rewrite Hkind, Hst. cbn [negb].
  fold sn. fold cyc0.
  replace (map (fun sv : wsave => wk_restored (fst sv, if true then snd sv else false)) (sn_workers sn)) with workers by reflexivity.
  match goal with |- context [iter_n (try_put_index c) (c_P c * W) ?S] =>
    assert (S = init0 c cyc0 workers (sn_step sn) (fst (sn_main sn)) (snd (sn_main sn)) (sn_last sn) (sn_workers sn) sn) as -> by reflexivity end.
  destruct (start_iter c Hkind HW HP B cyc0 cyc0_lt Ha0 wk0 true workers (sn_step sn) (fst (sn_main sn)) (snd (sn_main sn)) (sn_last sn) (sn_workers sn) sn Hws resume_entries_ok)
    as (gw & rd & R & H & HR & HA & HS & Eny & HWw & HX).
  cbn zeta in H, HR, HA, HS, Eny, HWw, HX.
  set (s3 := iter_n (try_put_index c) (c_P c * W) _) in *.
  assert (m_snapshot s3 = sn) as Esn3 by (unfold s3; rewrite iter_put_snap; reflexivity).
  destruct (replay_iter c Hkind HW HP B cyc0 cyc0_lt wk0 true (sd_steps d) gw rd (a0 cyc0) R s3 (refsuf W B 0 cyc0) sched Hsteps H HR HA HS HWw HX)
    as (s4 & sched4 & gw' & rd' & a' & R' & E & H4 & HR4 & HA4 & HS4 & Eny4 & HW4 & HX4 & _).
  rewrite E.
  match goal with |- exists sr sched', _ = (sr, sched') /\ _ => idtac | |- exists sr sched' gw rd a R, (?S, ?SC) = _ /\ _ => set (sF := S) end.
  assert (agree s4 sF) as Hag by (unfold agree, sF; cbn; repeat split; reflexivity).
  assert (agreeS s4 sF) as HagS by (split; [exact Hag | split; reflexivity]).
  assert (m_info sF = m_info s4) as Hinf by reflexivity.
  exists sF, sched4, gw', rd', a', R'. split; [reflexivity|].
  split; [apply (InvC_ext c B cyc0 gw' rd' a' R' s4 sF H4 Hag); [rewrite Hinf; exact (c_wf _ _ _ _ _ _ _ _ H4) | intros; rewrite Hinf; reflexivity | rewrite Hinf; reflexivity]|].
  split; [exact (Rest_agree c B gw' rd' R' s4 sF _ HR4 Hag)|]. split; [exact (Act_agree c gw' rd' a' s4 sF HA4 Hag)|].
  split; [exact (InvS_ext c B (m_ny s4) gw' rd' s4 sF HS4 HagS ltac:(rewrite Hinf; reflexivity))|].
  split; [apply (InvW_ext c cyc0 wk0 true gw' rd' a' s4 sF HW4); [unfold agreeW; repeat split; reflexivity | intros; reflexivity]|].
  split; [apply (InvX_ext c B cyc0 wk0 true gw' rd' s4 sF HX4); [unfold agreeX; repeat split; reflexivity | intros; reflexivity]|].
  split; [change (m_ny sF) with (m_ny s4); rewrite Eny4, Eny; reflexivity|].
  intros [E0|HI0].
  - rewrite E0 in E. cbn [replay] in E. injection E as <- _. exact Esn3.
  - pose proof (replay_snap0 c HI0 (sd_steps d) s3 sched) as Hr. rewrite E in Hr. cbn [fst] in Hr. change (m_snapshot sF) with (m_snapshot s4). rewrite Hr. exact Esn3.
Qed.

Theorem resume_main_exact : forall sched, sd_steps d <= length (refsuf W B 0 cyc0) ->
  let '(sr, sched') := sdl_resume c d sched in
  outcomes c (S (length (refsuf W B 0 cyc0) - sd_steps d)) sr sched' = map OBatch (skipn (sd_steps d) (refsuf W B 0 cyc0)) ++ [OStop].
Proof.
  intros sched Hsteps. destruct (resume_state sched Hsteps) as (sr & sched' & gw & rd & a & R & E & H & HR & HA & HS & HWw & HX & _).
  rewrite E. pose proof (outcomes_iter c Hkind HW HP B cyc0 cyc0_lt wk0 true _ gw rd a R sr sched' H HR HA HS HWw HX) as Hout.
  rewrite skipn_length in Hout. exact Hout.
Qed.

End Resume.

Section ResumeNoSnapshots.
Variable c : cfg.
Hypothesis Hkind : c_kind c = KIter.
Hypothesis HW : 0 < c_W c.
Hypothesis HP : 0 < c_P c.
Hypothesis Hst : c_stateful c = true.
Hypothesis HI0 : c_I c = 0.

Definition snap0 : snapshot :=
  {| sn_step := 0; sn_last := c_W c - 1; sn_main := (0, 0); sn_workers := repeat (0, false) (c_W c) |}.

Lemma replay_snap : forall k s sched, m_snapshot (fst (replay c k s sched)) = m_snapshot s.
Proof.
  induction k as [|k IH]; intros s sched; [reflexivity|]. cbn [replay].
  pose proof (next_data_snap c HI0 (FUEL c s) s sched) as Hn. unfold sdl_next.
  destruct (next_data (FUEL c s) c s sched) as [[o s'] sched']. cbn [fst snd] in Hn. rewrite IH. exact Hn.
Qed.

(* C01, iterable datasets with their own state, snapshot_every_n_steps = 0: a checkpoint at ANY batch, under EVERY pair of
   arrival schedules, resumes the exact remaining stream *)
Theorem iter_resume_exact_I0 : forall k sched1 sched2, k <= length (reference c) ->
  let '(sk, _) := replay c k (sdl_fresh c) sched1 in
  let '(sr, sched') := sdl_resume c (state_dict sk) sched2 in
  outcomes c (S (length (reference c) - k)) sr sched' = map OBatch (skipn k (reference c)) ++ [OStop].
Proof.
  intros k sched1 sched2 Hk.
  destruct (fresh_start c Hkind HW HP) as (gw & rd & R & H & HR & HA & HS & Eny & HWw & HX).
  destruct (replay_iter c Hkind HW HP (Bw c) 0 HW wk_fresh0 true k gw rd (a0 0) R (sdl_fresh c) (reference c) sched1 Hk H HR HA HS HWw HX)
    as (sk & sched1' & gw' & rd' & a' & R' & E & _ & _ & _ & _ & Enk & _).
  pose proof (replay_snap k (sdl_fresh c) sched1) as Hsn. rewrite E in *. cbn [fst] in Hsn.
  assert (m_snapshot (sdl_fresh c) = snap0) as Hs0 by (unfold sdl_fresh; rewrite iter_put_snap; reflexivity).
  rewrite Hs0 in Hsn. rewrite Eny in Enk. cbn in Enk.
  assert (state_dict sk = {| sd_snapshot := snap0; sd_steps := k; sd_finished := m_finished sk |}) as ->.
  { unfold state_dict. rewrite Hsn, Enk. cbn [sn_step snap0]. rewrite Nat.sub_0_r. reflexivity. }
  set (d := {| sd_snapshot := snap0; sd_steps := k; sd_finished := m_finished sk |}).
  assert (S (sn_last (sd_snapshot d)) mod c_W c = 0) as E0.
  { cbn. replace (S (c_W c - 1)) with (c_W c) by lia. apply Nat.mod_same. lia. }
  pose proof (resume_main_exact c Hkind HW HP Hst (Bw c) d) as T. rewrite E0 in T.
  assert (map (fun sv : wsave => wk_restored (fst sv, snd sv)) (sn_workers (sd_snapshot d)) = repeat wk_fresh (c_W c)) as Ew.
  { unfold d. cbn [sd_snapshot sn_workers snap0]. generalize (c_W c). intros n. induction n as [|n IH]; [reflexivity|]. cbn [repeat map]. rewrite IH. reflexivity. }
  rewrite Ew in T. specialize (T (fresh_workers_ok c Hkind) ltac:(intros w _; cbn; lia) sched2).
  rewrite (refsuf_start c Hkind HW) in T. exact (T Hk).
Qed.

End ResumeNoSnapshots.
Check iter_resume_exact_I0.
Print Assumptions iter_resume_exact_I0.
Print Assumptions resume_main_exact.

(* ------------------------------------------------------------------ *)
(* snapshot_every_n_steps = 1 (the default), for any iterator of the family (fresh or built from a state dict) *)
Lemma fut_beyond c B w j j' k : Fut c B w j k -> nb B w <= j -> j <= j' -> Fut c B w j' k.
Proof.
  intros H Hn Hj ts. rewrite H. generalize (length ts). intros n. clear H. revert j j' Hn Hj.
  induction n as [|n IH]; intros j j' Hn Hj; [reflexivity|]. cbn [seq map]. rewrite !ans_stop by lia. f_equal. apply IH; lia.
Qed.

Lemma ans_rem B R1 c1 w i : ans (Brem B R1 c1) w (a0 c1 w + i) = ans B w (cnt R1 c1 w + i).
Proof.
  unfold ans, Brem, a0, cnt, b2n. destruct (w <? c1).
  - cbn [Nat.add nth_error]. rewrite nth_error_skipn. replace (R1 + 1 + i) with (S R1 + i) by lia. reflexivity.
  - cbn [Nat.add]. rewrite nth_error_skipn. rewrite Nat.add_0_r. reflexivity.
Qed.

Lemma fut_rem c B R1 c1 w k : Fut c B w (cnt R1 c1 w) k -> Fut c (Brem B R1 c1) w (a0 c1 w) k.
Proof.
  intros H ts. rewrite H. generalize (length ts). intros n. clear H.
  assert (forall i, map (ans B w) (seq (cnt R1 c1 w + i) n) = map (ans (Brem B R1 c1) w) (seq (a0 c1 w + i) n)) as X.
  { induction n as [|n IH]; intros i; [reflexivity|]. cbn [seq map]. rewrite ans_rem. f_equal.
    replace (S (cnt R1 c1 w + i)) with (cnt R1 c1 w + S i) by lia. replace (S (a0 c1 w + i)) with (a0 c1 w + S i) by lia. apply IH. }
  specialize (X 0). rewrite !Nat.add_0_r in X. exact X.
Qed.

Lemma nth_map_restored (l : list wsave) w : nth w (map (fun sv : wsave => wk_restored (fst sv, snd sv)) l) wk_fresh = wk_restored (nth w l (0, false)).
Proof.
  change wk_fresh with ((fun sv : wsave => wk_restored (fst sv, snd sv)) (0, false)). rewrite map_nth. destruct (nth w l (0, false)); reflexivity.
Qed.

Section EveryStep.
Variable c : cfg.
Hypothesis Hkind : c_kind c = KIter.
Hypothesis HW : 0 < c_W c.
Hypothesis HP : 0 < c_P c.
Hypothesis Hst : c_stateful c = true.
Hypothesis HI1 : c_I c = 1.
Notation W := (c_W c).

Section Instance.
Variable B : nat -> list (list nat).
Variable cyc0 : nat.
Hypothesis Hcyc0 : cyc0 < W.
Variable wk0 : nat -> wk.
(* the worker machines this iterator started with answer according to B *)
Hypothesis Hfut0 : forall w, w < W -> Fut c B w (a0 cyc0 w) (wk0 w).
Notation wstf := (wst c cyc0 wk0).

Lemma fut_wsk w : w < W -> forall j, a0 cyc0 w <= j -> Fut c B w j (wsk c cyc0 wk0 w j).
Proof.
  intros Hw j Hj. replace j with (a0 cyc0 w + (j - a0 cyc0 w)) by lia. generalize (j - a0 cyc0 w). intros d. induction d as [|d IH].
  - rewrite Nat.add_0_r. unfold wsk. rewrite Nat.sub_diag. exact (Hfut0 w Hw).
  - replace (a0 cyc0 w + S d) with (S (a0 cyc0 w + d)) by lia. rewrite wsk_S by lia. unfold wstep.
    pose proof (fut_fetch c B w _ _ t0 IH) as F. destruct (worker_fetch c w (wsk c cyc0 wk0 w (a0 cyc0 w + d)) t0) as [[r st] k']. exact (proj2 F).
Qed.

Lemma fut_restored w j : w < W -> a0 cyc0 w <= j -> Fut c B w j (wk_restored (wstf w j)).
Proof. intros Hw Hj. apply (fut_congr c Hkind B w j (wsk c cyc0 wk0 w j)); [reflexivity | reflexivity | apply fut_wsk; assumption]. Qed.

(* the entry of worker w written at the last hand-out is its state after ALL its tasks at slots before the pointer that follows
   the handed-out slot (capped at its end-of-shard notice) *)
Lemma entry_exact gw rd a R s w : InvC c B cyc0 gw rd a R s -> InvX c B cyc0 wk0 true gw rd s -> PostH c B gw rd s -> w < W ->
  let kk := m_rcvd s - 1 in
  let R1 := if S (gw kk) =? W then S (rd kk) else rd kk in
  let c1 := if S (gw kk) =? W then 0 else S (gw kk) in
  exists j, nth w (m_wsnap s) (0, false) = wstf w j /\ a0 cyc0 w <= j /\ (j = cnt R1 c1 w \/ (nb B w < j /\ j <= cnt R1 c1 w)).
Proof.
  intros H HX HPo Hw. cbn zeta. destruct (HPo HI1) as (Hr0 & _ & _ & _ & Hdk & _).
  set (kk := m_rcvd s - 1) in *. set (u := gw kk) in *.
  assert (kk < m_rcvd s) as Hkk by lia. pose proof (c_kn _ _ _ _ _ _ _ _ H) as Hkn.
  assert (u < W) as Hu by (apply (c_gw _ _ _ _ _ _ _ _ H); lia).
  set (R1 := if S u =? W then S (rd kk) else rd kk). set (c1 := if S u =? W then 0 else S u).
  assert (c1 < W) as Hc1 by (unfold c1; destruct (Nat.eqb_spec (S u) W); lia).
  pose proof (c_base _ _ _ _ _ _ _ _ H kk ltac:(lia)) as Hbase. fold u in Hbase.
  assert (a0 cyc0 w <= cnt R1 c1 w) as Ha0c.
  { unfold a0, cnt, b2n, R1, c1. destruct (Nat.eqb_spec (S u) W); repeat match goal with |- context [?x <? ?y] => destruct (Nat.ltb_spec x y) end; lia. }
  destruct (x_s _ _ _ _ _ _ _ _ HX HI1 eq_refl w Hw) as (j & Ej & Hmax & Hj). exists j. split; [exact Ej|].
  assert (a0 cyc0 w <= j) as Haj.
  { destruct Hj as [->|(t & T1 & T2 & T3 & T4)]; [lia|]. unfold a0. destruct (w <? cyc0); lia. }
  split; [exact Haj|].
  assert (forall t, t < m_rcvd s -> gw t = w -> rd t < cnt R1 c1 w) as Hbefore.
  { intros t Ht Hg. destruct (Nat.eq_dec t kk) as [->|Hne].
    - fold u in Hg. subst w. unfold cnt, b2n, R1, c1. destruct (Nat.eqb_spec (S u) W); [destruct (Nat.ltb_spec u 0); lia | destruct (Nat.ltb_spec u (S u)); lia].
    - pose proof (c_mono _ _ _ _ _ _ _ _ H t kk ltac:(lia) ltac:(lia)) as M. fold u in M. rewrite Hg in M.
      unfold cnt, b2n, R1, c1. destruct (Nat.eqb_spec (S u) W); [destruct (Nat.ltb_spec w 0) | destruct (Nat.ltb_spec w (S u))]; lia. }
  assert (forall t, m_rcvd s <= t < m_send s -> gw t = w -> cnt R1 c1 w <= rd t) as Hafter.
  { intros t Ht Hg. pose proof (c_mono _ _ _ _ _ _ _ _ H kk t ltac:(lia) ltac:(lia)) as M. fold u in M. rewrite Hg in M.
    unfold cnt, b2n, R1, c1. destruct (Nat.eqb_spec (S u) W); [destruct (Nat.ltb_spec w 0) | destruct (Nat.ltb_spec w (S u))]; lia. }
  assert (j <= cnt R1 c1 w) as Hle.
  { destruct Hj as [->|(t & T1 & T2 & T3 & T4)]; [exact Ha0c|]. specialize (Hbefore t T1 T2). lia. }
  destruct (Nat.le_gt_cases j (nb B w)) as [Hjn|Hjn]; [left | right; split; [exact Hjn | exact Hle]].
  destruct (Nat.eq_dec j (cnt R1 c1 w)) as [E|NE]; [exact E|exfalso].
  assert (j < cnt R1 c1 w) as Hlt by lia.
  destruct (c_d _ _ _ _ _ _ _ _ H w Hw) as (D1 & D2 & D3).
  assert (j < dsp a s w) as Hjd.
  { destruct (act s w) eqn:Ea.
    - destruct (Nat.le_gt_cases (dsp a s w) j) as [Hc|Hc]; [|exact Hc]. exfalso.
      destruct (c_d _ _ _ _ _ _ _ _ H u Hu) as (_ & D2u & D3u). specialize (D2u kk ltac:(lia) eq_refl).
      assert (dsp a s u <= cnt R (m_cyc s) u) as Hdu by (destruct (act s u); lia).
      pose proof (c_cyc _ _ _ _ _ _ _ _ H) as Hcyc.
      revert Hlt Hc D3 D2u Hdu. unfold cnt, b2n, R1, c1. generalize (dsp a s w) (dsp a s u). intros dw du.
      destruct (Nat.eqb_spec (S u) W); repeat match goal with |- context [?x <? ?y] => destruct (Nat.ltb_spec x y) end; lia.
    - lia. }
  destruct (D1 j ltac:(lia)) as (t & T1 & T2 & T3).
  destruct (Nat.lt_ge_cases t (m_rcvd s)) as [Hp|Hp].
  - specialize (Hmax t Hp T2 ltac:(lia)). lia.
  - specialize (Hafter t ltac:(lia) T2). lia.
Qed.

End Instance.

(* a GOOD state of an iterator of the family, snapshot interval 1: all invariants, and a snapshot that describes the slot from
   which the remaining stream `rest` starts, with exact worker entries *)
Definition SnapOK (B : nat -> list (list nat)) (cyc0 : nat) (wk0 : nat -> wk) (rest : list (list nat)) (s : ms) : Prop :=
  sn_step (m_snapshot s) = m_ny s /\ length (sn_workers (m_snapshot s)) = W /\
  exists R1 c1, c1 < W /\ S (sn_last (m_snapshot s)) mod W = c1 /\ (0 < R1 \/ cyc0 <= c1) /\ refsuf W B R1 c1 = rest /\
    forall w, w < W -> exists j, nth w (sn_workers (m_snapshot s)) (0, false) = wst c cyc0 wk0 w j /\ a0 cyc0 w <= j /\
                                 (j = cnt R1 c1 w \/ (nb B w < j /\ j <= cnt R1 c1 w)).

Definition Good1 (rest : list (list nat)) (s : ms) : Prop :=
  exists B cyc0 wk0 gw rd a R, cyc0 < W /\ (forall w, w < W -> a0 cyc0 w <= nb B w) /\
    (forall w, w < W -> Fut c B w (a0 cyc0 w) (wk0 w)) /\
    InvC c B cyc0 gw rd a R s /\ Rest c B gw rd R s rest /\ Act c gw rd a s /\ InvS c B (m_ny s) gw rd s /\
    InvW c cyc0 wk0 true gw rd a s /\ InvX c B cyc0 wk0 true gw rd s /\ SnapOK B cyc0 wk0 rest s.

(* (A) the start state of any iterator of the family whose snapshot entry is the state it was built from *)
Lemma iter_start_good B cyc0 wk0 workers ny0 siy0 samp0 last0 wsnap snap :
  cyc0 < W -> (forall w, w < W -> a0 cyc0 w <= nb B w) -> workers_ok c B cyc0 workers -> entries_ok c wk0 true workers wsnap snap ->
  sn_step snap = ny0 -> S (sn_last snap) mod W = cyc0 ->
  Good1 (refsuf W B 0 cyc0) (iter_n (try_put_index c) (c_P c * W) (init0 c cyc0 workers ny0 siy0 samp0 last0 wsnap snap)).
Proof.
  intros Hc0 Ha0 Hok Hent Est Ela.
  destruct (start_iter c Hkind HW HP B cyc0 Hc0 Ha0 wk0 true workers ny0 siy0 samp0 last0 wsnap snap Hok Hent) as (gw & rd & R & H & HR & HA & HS & Eny & HWw & HX).
  cbn zeta in *. set (s := iter_n (try_put_index c) (c_P c * W) _) in *.
  assert (m_snapshot s = snap) as Esn by (unfold s; rewrite iter_put_snap; reflexivity).
  destruct Hent as (E1 & E2 & E3 & E4). destruct Hok as [Hlen Hws].
  exists B, cyc0, wk0, gw, rd, (a0 cyc0), R. split; [exact Hc0|]. split; [exact Ha0|]. split.
  { intros w Hw. destruct (Hws w Hw) as (_ & _ & F). apply (fut_congr c Hkind B w _ (nth w workers wk_fresh)); [exact (proj1 (E1 w Hw)) | exact (proj2 (E1 w Hw)) | exact F]. }
  split; [exact H|]. split; [exact HR|]. split; [exact HA|]. split; [exact HS|]. split; [exact HWw|]. split; [exact HX|].
  unfold SnapOK. rewrite Esn, Eny. split; [exact Est|]. split; [rewrite E4; exact E2|].
  exists 0, cyc0. split; [exact Hc0|]. split; [exact Ela|]. split; [right; lia|]. split; [reflexivity|].
  intros w Hw. exists (a0 cyc0 w). rewrite E4, (E3 eq_refl w Hw), (wst_a0 c cyc0 wk0 w). split; [reflexivity|]. split; [lia|]. left. apply a0_cnt.
Qed.

(* the state right after a batch was handed out is good again *)
Lemma good_of_post B cyc0 wk0 gw' rd' a' R' s' rest : cyc0 < W -> (forall w, w < W -> a0 cyc0 w <= nb B w) ->
  (forall w, w < W -> Fut c B w (a0 cyc0 w) (wk0 w)) ->
  InvC c B cyc0 gw' rd' a' R' s' -> Rest c B gw' rd' R' s' rest -> Act c gw' rd' a' s' -> InvS c B (m_ny s') gw' rd' s' ->
  InvW c cyc0 wk0 true gw' rd' a' s' -> InvX c B cyc0 wk0 true gw' rd' s' -> PostH c B gw' rd' s' -> Good1 rest s'.
Proof.
  intros Hc0 Ha0 Hf0 H' HR' HA' HS' HW' HX' HP'.
  exists B, cyc0, wk0, gw', rd', a', R'. split; [exact Hc0|]. split; [exact Ha0|]. split; [exact Hf0|].
  split; [exact H'|]. split; [exact HR'|]. split; [exact HA'|]. split; [exact HS'|]. split; [exact HW'|]. split; [exact HX'|].
  destruct (HP' HI1) as (Hr0 & Psn & Pst & Pla & Pdk & Pml).
  set (kk := m_rcvd s' - 1) in *. set (u := gw' kk) in *.
  pose proof (c_kn _ _ _ _ _ _ _ _ H') as Hkn.
  assert (u < W) as Hu by (apply (c_gw _ _ _ _ _ _ _ _ H'); lia).
  set (R1 := if S u =? W then S (rd' kk) else rd' kk). set (c1 := if S u =? W then 0 else S u).
  assert (c1 < W) as Hc1 by (unfold c1; destruct (Nat.eqb_spec (S u) W); lia).
  pose proof (c_base _ _ _ _ _ _ _ _ H' kk ltac:(lia)) as Hbase. fold u in Hbase.
  assert (0 < R1 \/ cyc0 <= c1) as Hb1 by (unfold R1, c1; destruct (Nat.eqb_spec (S u) W); lia).
  unfold SnapOK. split; [exact Pst|]. split; [rewrite Psn; exact (w_len _ _ _ _ _ _ _ _ HW')|].
  exists R1, c1. split; [exact Hc1|]. split.
  { rewrite Pla. fold u. unfold c1. destruct (Nat.eqb_spec (S u) W) as [EW|NW]; [rewrite EW; apply Nat.mod_same; lia | apply Nat.mod_small; lia]. }
  split; [exact Hb1|]. split.
  - assert (kk < m_send s') as Hkks by lia.
    destruct (c_d _ _ _ _ _ _ _ _ H' u Hu) as (_ & D2u & D3u). specialize (D2u kk Hkks eq_refl).
    assert (dsp a' s' u <= cnt R' (m_cyc s') u) as Hdu by (destruct (act s' u); lia).
    pose proof (c_cyc _ _ _ _ _ _ _ _ H') as Hcyc.
    rewrite (walk_rest c HW HP B cyc0 Hc0 gw' rd' a' R' s' H' _ R1 c1 (m_rcvd s') eq_refl); [symmetry; exact HR' | | exact Hc1 | exact Hb1 | exact Hkn | | ].
    + revert D2u Hdu. unfold cnt, b2n, R1, c1. generalize (dsp a' s' u). intros du.
      destruct (Nat.eqb_spec (S u) W); repeat match goal with |- context [?x <? ?y] => destruct (Nat.ltb_spec x y) end; lia.
    + intros t Ht. pose proof (c_mono _ _ _ _ _ _ _ _ H' kk t ltac:(lia) ltac:(lia)) as M. fold u in M.
      pose proof (c_gw _ _ _ _ _ _ _ _ H' t ltac:(lia)). unfold R1, c1. destruct (Nat.eqb_spec (S u) W); lia.
    + intros t Ht. destruct (Nat.eq_dec t kk) as [->|Hne]; [fold u; unfold R1, c1; destruct (Nat.eqb_spec (S u) W); lia|].
      pose proof (c_mono _ _ _ _ _ _ _ _ H' t kk ltac:(lia) ltac:(lia)) as M. fold u in M. unfold R1, c1. destruct (Nat.eqb_spec (S u) W); lia.
  - intros w Hw. rewrite Psn. destruct (entry_exact B cyc0 Hc0 wk0 gw' rd' a' R' s' w H' HX' HP' Hw) as (j & Ej & Haj & Hj). exists j. auto.
Qed.

(* (B) one more batch *)
Lemma iter_step_good b rest s sched : Good1 (b :: rest) s ->
  exists s' sched', sdl_next c s sched = (OBatch b, s', sched') /\ Good1 rest s'.
Proof.
  intros (B & cyc0 & wk0 & gw & rd & a & R & Hc0 & Ha0 & Hf0 & H & HR & HA & HS & HWw & HX & _).
  destruct (sdl_next_iter c Hkind HW HP B cyc0 Hc0 wk0 true gw rd a R s (b :: rest) sched H HR HA HS HWw HX)
    as (s' & sched' & gw' & rd' & a' & R' & E & H' & HR' & HA' & HS' & Eny & HW' & HX' & HP').
  exists s', sched'. split; [exact E|]. exact (good_of_post B cyc0 wk0 gw' rd' a' R' s' rest Hc0 Ha0 Hf0 H' HR' HA' HS' HW' HX' HP').
Qed.

(* (B') one more next() under ANY fault schedule: the batch that is due and a good state, or StopIteration when nothing is left,
   or the worker-died error — and a checkpoint taken after a delivered batch is as good as any *)
Lemma iter_fault_step_good rest s cr evs fuel : Good1 rest s ->
  exists o s' cr' evs', next_data_f fuel c s cr evs = (o, s', cr', evs') /\
    (benignF o \/ match rest with [] => o = FO OStop | b :: rest' => o = FO (OBatch b) /\ Good1 rest' s' end).
Proof.
  intros (B & cyc0 & wk0 & gw & rd & a & R & Hc0 & Ha0 & Hf0 & H & HR & HA & HS & HWw & HX & _).
  destruct (next_data_f_iter c Hkind HW HP B cyc0 Hc0 wk0 true fuel gw rd a R s rest cr evs H HR HA HS HWw HX) as (o & s' & cr' & evs' & E & Hpost).
  exists o, s', cr', evs'. split; [exact E|]. destruct Hpost as [Hb|Hpost]; [left; exact Hb|right].
  destruct rest as [|b rest']; [exact Hpost|]. destruct Hpost as [-> (gw' & rd' & a' & R' & H' & HR' & HA' & HS' & HW' & HX' & HP')].
  split; [reflexivity|]. exact (good_of_post B cyc0 wk0 gw' rd' a' R' s' rest' Hc0 Ha0 Hf0 H' HR' HA' HS' HW' HX' HP').
Qed.

(* (C) k more batches *)
Lemma iter_replay_good : forall k rest s sched, k <= length rest -> Good1 rest s ->
  exists s' sched', replay c k s sched = (s', sched') /\ Good1 (skipn k rest) s'.
Proof.
  induction k as [|k IH]; intros rest s sched Hk HG; [exists s, sched; auto|].
  destruct rest as [|b rest]; [cbn in Hk; lia|].
  destruct (iter_step_good b rest s sched HG) as (s1 & sched1 & E & HG1).
  destruct (IH rest s1 sched1 ltac:(cbn in Hk; lia) HG1) as (s' & sched' & E' & HG').
  exists s', sched'. cbn [replay skipn]. rewrite E. auto.
Qed.

(* (D) checkpoint and resume: again a good state, with the same remaining stream *)
Lemma iter_resume_good rest s sched : Good1 rest s ->
  exists sr sched', sdl_resume c (state_dict s) sched = (sr, sched') /\ Good1 rest sr.
Proof.
  intros (B & cyc0 & wk0 & gw & rd & a & R & Hc0 & Ha0 & Hf0 & H & HR & HA & HS & HWw & HX & Pst & Plen & R1 & c1 & Hc1 & Ela & Hb1 & Eref & Hent).
  set (d := state_dict s).
  assert (sd_steps d = 0) as Est0 by (unfold d; cbn [state_dict sd_steps]; lia).
  set (B1 := Brem B R1 c1).
  set (wk1 := fun w => nth w (map (fun sv : wsave => wk_restored (fst sv, snd sv)) (sn_workers (sd_snapshot d))) wk_fresh).
  assert (forall w, w < W -> a0 c1 w <= nb B1 w) as Ha1.
  { intros w _. unfold a0, nb, B1, Brem. destruct (w <? c1); cbn [length]; lia. }
  assert (workers_ok c B1 c1 (map (fun sv : wsave => wk_restored (fst sv, snd sv)) (sn_workers (m_snapshot s)))) as Hwok.
  { split; [rewrite map_length; exact Plen|].
    intros w Hw. rewrite nth_map_restored. split; [reflexivity|]. split; [reflexivity|].
    destruct (Hent w Hw) as (j & Ej & Haj & Hj). rewrite Ej. apply fut_rem.
    destruct Hj as [->|[Hj1 Hj2]]; [apply (fut_restored B cyc0 Hc0 wk0 Hf0 w _ Hw Haj)|].
    apply (fut_beyond c B w j); [apply (fut_restored B cyc0 Hc0 wk0 Hf0 w j Hw Haj) | lia | exact Hj2]. }
  pose proof (resume_state c Hkind HW HP Hst B1 d) as T. change (sd_snapshot d) with (m_snapshot s) in T. rewrite Ela in T.
  specialize (T Hwok Ha1 sched ltac:(rewrite Est0; lia)).
  destruct T as (sr & sched' & gw1 & rd1 & a1 & R1' & E & H1 & HR1 & HA1 & HS1 & HW1 & HX1 & Eny1 & Esn1).
  exists sr, sched'. split; [exact E|]. rewrite Est0 in *. cbn [skipn] in HR1. specialize (Esn1 (or_introl eq_refl)).
  assert (refsuf W B1 0 c1 = rest) as Ecan by (unfold B1; rewrite (refsuf_canon W B HW R1 c1 Hc1); exact Eref).
  rewrite Ecan in HR1.
  exists B1, c1, wk1, gw1, rd1, a1, R1'. split; [exact Hc1|]. split; [exact Ha1|].
  split; [intros w Hw; exact (proj2 (proj2 (proj2 Hwok w Hw)))|].
  split; [exact H1|]. split; [exact HR1|]. split; [exact HA1|]. split; [exact HS1|]. split; [exact HW1|]. split; [exact HX1|].
  unfold SnapOK. rewrite Esn1. split; [lia|]. split; [exact Plen|].
  exists 0, c1. split; [exact Hc1|]. split; [exact Ela|]. split; [right; lia|]. split; [exact Ecan|].
  intros w Hw. exists (a0 c1 w). rewrite (wst_a0 c c1 wk1 w). split.
  - unfold wk1. change (sd_snapshot d) with (m_snapshot s). rewrite nth_map_restored. destruct (nth w (sn_workers (m_snapshot s)) (0, false)); reflexivity.
  - split; [lia|]. left. apply a0_cnt.
Qed.

(* (E) what a good state still yields *)
Lemma iter_good_outcomes rest s sched : Good1 rest s -> outcomes c (S (length rest)) s sched = map OBatch rest ++ [OStop].
Proof.
  intros (B & cyc0 & wk0 & gw & rd & a & R & Hc0 & Ha0 & Hf0 & H & HR & HA & HS & HWw & HX & _).
  exact (outcomes_iter c Hkind HW HP B cyc0 Hc0 wk0 true rest gw rd a R s sched H HR HA HS HWw HX).
Qed.

Lemma iter_fresh_good : Good1 (reference c) (sdl_fresh c).
Proof.
  pose proof (iter_start_good (Bw c) 0 wk_fresh0 (repeat wk_fresh W) 0 0 0 (W - 1) (repeat (0, false) W) (snap_fresh c) HW
                ltac:(intros w _; cbn; lia) (fresh_workers_ok c Hkind) (fresh_entries_ok c (snap_fresh c) eq_refl) eq_refl) as G.
  rewrite (refsuf_start c Hkind HW) in G. apply G.
  cbn. replace (S (W - 1)) with W by lia. apply Nat.mod_same. lia.
Qed.

(* (F) chains: k1 batches, checkpoint + resume, k2 batches, checkpoint + resume, ... *)
Lemma iter_chain_good : forall ks rest s sched, fold_right Nat.add 0 ks <= length rest -> Good1 rest s ->
  exists s' sched', chain c ks s sched = (s', sched') /\ Good1 (skipn (fold_right Nat.add 0 ks) rest) s'.
Proof.
  induction ks as [|j ks IH]; intros rest s sched Hk HG; [exists s, sched; auto|].
  cbn [fold_right] in Hk. destruct (iter_replay_good j rest s sched ltac:(lia) HG) as (s1 & sc1 & E1 & G1).
  destruct (iter_resume_good (skipn j rest) s1 sc1 G1) as (s2 & sc2 & E2 & G2).
  destruct (IH (skipn j rest) s2 sc2 ltac:(rewrite skipn_length; lia) G2) as (s' & sched' & E' & G').
  exists s', sched'. cbn [chain fold_right]. rewrite E1, E2. split; [exact E'|]. rewrite skipn_skipn in G'. exact G'.
Qed.

(* C01, iterable datasets with their own state, snapshot_every_n_steps = 1 (the default): any finite CHAIN of checkpoint/resume,
   every arrival schedule throughout, still yields exactly the remaining stream *)
Theorem iter_resume_chain_I1 : forall ks sched, fold_right Nat.add 0 ks <= length (reference c) ->
  let '(s, sched') := chain c ks (sdl_fresh c) sched in
  let p := fold_right Nat.add 0 ks in
  outcomes c (S (length (reference c) - p)) s sched' = map OBatch (skipn p (reference c)) ++ [OStop].
Proof.
  intros ks sched Hk. destruct (iter_chain_good ks (reference c) (sdl_fresh c) sched Hk iter_fresh_good) as (s' & sched' & E & G).
  rewrite E. cbn zeta. pose proof (iter_good_outcomes _ s' sched' G) as Ho. rewrite skipn_length in Ho. exact Ho.
Qed.

(* C09 + C01: the checkpoint taken after ANY batch delivered under ANY fault schedule resumes exactly in a new iterator *)
Theorem iter_checkpoint_after_faulty_step_resumes : forall b rest s cr evs fuel s' cr' evs' sched,
  Good1 (b :: rest) s -> next_data_f fuel c s cr evs = (FO (OBatch b), s', cr', evs') ->
  let '(sr, sched') := sdl_resume c (state_dict s') sched in
  outcomes c (S (length rest)) sr sched' = map OBatch rest ++ [OStop].
Proof.
  intros b rest s cr evs fuel s' cr' evs' sched HG E.
  destruct (iter_fault_step_good (b :: rest) s cr evs fuel HG) as (o & s2 & cr2 & evs2 & E2 & Hp). rewrite E in E2. injection E2 as <- <- <- <-.
  destruct Hp as [[[ws Hb]|Hb]|[_ G']]; try discriminate.
  destruct (iter_resume_good rest s' sched G') as (sr & sched' & Er & Gr). rewrite Er. exact (iter_good_outcomes _ sr sched' Gr).
Qed.

(* a single checkpoint at any batch k *)
Theorem iter_resume_exact_I1 : forall k sched1 sched2, k <= length (reference c) ->
  let '(sk, _) := replay c k (sdl_fresh c) sched1 in
  let '(sr, sched') := sdl_resume c (state_dict sk) sched2 in
  outcomes c (S (length (reference c) - k)) sr sched' = map OBatch (skipn k (reference c)) ++ [OStop].
Proof.
  intros k sched1 sched2 Hk.
  destruct (iter_replay_good k (reference c) (sdl_fresh c) sched1 Hk iter_fresh_good) as (sk & sc1 & E1 & G1). rewrite E1.
  destruct (iter_resume_good _ sk sched2 G1) as (sr & sched' & E2 & G2). rewrite E2.
  pose proof (iter_good_outcomes _ sr sched' G2) as Ho. rewrite skipn_length in Ho. exact Ho.
Qed.


(* the remaining stream starts at the slot that follows the last handed-out one *)
Lemma rest_at_pointer B cyc0 gw' rd' a' R' s' rest : cyc0 < W ->
  InvC c B cyc0 gw' rd' a' R' s' -> Rest c B gw' rd' R' s' rest -> PostH c B gw' rd' s' ->
  let kk := m_rcvd s' - 1 in let u := gw' kk in
  u < W /\ rd' kk < nb B u /\
  refsuf W B (if S u =? W then S (rd' kk) else rd' kk) (if S u =? W then 0 else S u) = rest.
Proof.
  intros Hc0 H' HR' HP'. cbn zeta. destruct (HP' HI1) as (Hr0 & Psn & Pst & Pla & Pdk & Pml).
  set (kk := m_rcvd s' - 1) in *. set (u := gw' kk) in *.
  pose proof (c_kn _ _ _ _ _ _ _ _ H') as Hkn.
  assert (u < W) as Hu by (apply (c_gw _ _ _ _ _ _ _ _ H'); lia).
  set (R1 := if S u =? W then S (rd' kk) else rd' kk). set (c1 := if S u =? W then 0 else S u).
  assert (c1 < W) as Hc1 by (unfold c1; destruct (Nat.eqb_spec (S u) W); lia).
  pose proof (c_base _ _ _ _ _ _ _ _ H' kk ltac:(lia)) as Hbase. fold u in Hbase.
  assert (0 < R1 \/ cyc0 <= c1) as Hb1 by (unfold R1, c1; destruct (Nat.eqb_spec (S u) W); lia).
  split; [exact Hu|]. split; [exact Pdk|].
  assert (kk < m_send s') as Hkks by lia.
  destruct (c_d _ _ _ _ _ _ _ _ H' u Hu) as (_ & D2u & D3u). specialize (D2u kk Hkks eq_refl).
  assert (dsp a' s' u <= cnt R' (m_cyc s') u) as Hdu by (destruct (act s' u); lia).
  pose proof (c_cyc _ _ _ _ _ _ _ _ H') as Hcyc.
  rewrite (walk_rest c HW HP B cyc0 Hc0 gw' rd' a' R' s' H' _ R1 c1 (m_rcvd s') eq_refl); [symmetry; exact HR' | | exact Hc1 | exact Hb1 | exact Hkn | | ].
  + revert D2u Hdu. unfold cnt, b2n, R1, c1. generalize (dsp a' s' u). intros du.
    destruct (Nat.eqb_spec (S u) W); repeat match goal with |- context [?x <? ?y] => destruct (Nat.ltb_spec x y) end; lia.
  + intros t Ht. pose proof (c_mono _ _ _ _ _ _ _ _ H' kk t ltac:(lia) ltac:(lia)) as M. fold u in M.
    pose proof (c_gw _ _ _ _ _ _ _ _ H' t ltac:(lia)). unfold R1, c1. destruct (Nat.eqb_spec (S u) W); lia.
  + intros t Ht. destruct (Nat.eq_dec t kk) as [->|Hne]; [fold u; unfold R1, c1; destruct (Nat.eqb_spec (S u) W); lia|].
    pose proof (c_mono _ _ _ _ _ _ _ _ H' t kk ltac:(lia) ltac:(lia)) as M. fold u in M. unfold R1, c1. destruct (Nat.eqb_spec (S u) W); lia.
Qed.

(* the worker of the p-th handed-out batch does not depend on the arrival schedule *)
Lemma last_worker_unique B cyc0 gw1 rd1 a1 R1 s1 gw2 rd2 a2 R2 s2 rest : cyc0 < W ->
  InvC c B cyc0 gw1 rd1 a1 R1 s1 -> Rest c B gw1 rd1 R1 s1 rest -> PostH c B gw1 rd1 s1 ->
  InvC c B cyc0 gw2 rd2 a2 R2 s2 -> Rest c B gw2 rd2 R2 s2 rest -> PostH c B gw2 rd2 s2 ->
  gw1 (m_rcvd s1 - 1) = gw2 (m_rcvd s2 - 1).
Proof.
  intros Hc0 H1 HR1 HP1 H2 HR2 HP2.
  destruct (rest_at_pointer B cyc0 gw1 rd1 a1 R1 s1 rest Hc0 H1 HR1 HP1) as (Hu1 & Hd1 & E1).
  destruct (rest_at_pointer B cyc0 gw2 rd2 a2 R2 s2 rest Hc0 H2 HR2 HP2) as (Hu2 & Hd2 & E2).
  destruct (pointer_unique c HW HP B cyc0 Hc0 _ _ _ _ Hu1 Hu2 Hd1 Hd2 ltac:(rewrite E1, E2; reflexivity)) as [_ E]. exact E.
Qed.

End EveryStep.
Check iter_resume_chain_I1.
Print Assumptions iter_resume_chain_I1.
Print Assumptions iter_resume_exact_I1.

(* ------------------------------------------------------------------ *)
(* snapshot_every_n_steps = 0: chains of checkpoint/resume, for iterable datasets WITH their own state (restore path: the initial
   entries) and WITHOUT (fast-forward path: fresh workers, the steps replayed) *)
Section NoSnapshotsChain.
Variable c : cfg.
Hypothesis Hkind : c_kind c = KIter.
Hypothesis HW : 0 < c_W c.
Hypothesis HP : 0 < c_P c.
Hypothesis HI0 : c_I c = 0.
Notation W := (c_W c).

Definition Good0 (k : nat) (s : ms) : Prop :=
  exists B cyc0 wk0 gw rd a R, cyc0 < W /\
    InvC c B cyc0 gw rd a R s /\ Rest c B gw rd R s (skipn k (reference c)) /\ Act c gw rd a s /\ InvS c B (m_ny s) gw rd s /\
    InvW c cyc0 wk0 true gw rd a s /\ InvX c B cyc0 wk0 true gw rd s /\ m_ny s = k /\ m_snapshot s = snap0 c /\ k <= length (reference c).

Lemma fresh_good0 : Good0 0 (sdl_fresh c).
Proof.
  destruct (fresh_start c Hkind HW HP) as (gw & rd & R & H & HR & HA & HS & Eny & HWw & HX).
  exists (Bw c), 0, wk_fresh0, gw, rd, (a0 0), R. split; [exact HW|]. split; [exact H|]. split; [exact HR|]. split; [exact HA|]. split; [exact HS|].
  split; [exact HWw|]. split; [exact HX|]. split; [exact Eny|]. split; [unfold sdl_fresh; rewrite iter_put_snap; reflexivity | lia].
Qed.

Lemma replay_good0 : forall j k s sched, Good0 k s -> k + j <= length (reference c) ->
  exists s' sched', replay c j s sched = (s', sched') /\ Good0 (k + j) s'.
Proof.
  intros j k s sched (B & cyc0 & wk0 & gw & rd & a & R & Hc0 & H & HR & HA & HS & HWw & HX & Eny & Esn & Hk) Hkj.
  destruct (replay_iter c Hkind HW HP B cyc0 Hc0 wk0 true j gw rd a R s (skipn k (reference c)) sched ltac:(rewrite skipn_length; lia) H HR HA HS HWw HX)
    as (s' & sched' & gw' & rd' & a' & R' & E & H' & HR' & HA' & HS' & Eny' & HW' & HX' & _).
  exists s', sched'. split; [exact E|]. rewrite skipn_skipn in HR'.
  exists B, cyc0, wk0, gw', rd', a', R'. split; [exact Hc0|]. split; [exact H'|]. split; [exact HR'|]. split; [exact HA'|]. split; [exact HS'|].
  split; [exact HW'|]. split; [exact HX'|]. split; [lia|]. split; [|lia].
  pose proof (replay_snap0 c HI0 j s sched) as Hr. rewrite E in Hr. cbn [fst] in Hr. rewrite Hr. exact Esn.
Qed.

Lemma map_restored_snap0 : map (fun sv : wsave => wk_restored (fst sv, snd sv)) (sn_workers (snap0 c)) = repeat wk_fresh W.
Proof. cbn [sn_workers snap0]. generalize W. intros n. induction n as [|n IH]; [reflexivity|]. cbn [repeat map]. rewrite IH. reflexivity. Qed.

(* checkpoint + resume, restore path *)
Lemma resume_good0_st k s sched : c_stateful c = true -> Good0 k s ->
  exists sr sched', sdl_resume c (state_dict s) sched = (sr, sched') /\ Good0 k sr.
Proof.
  intros Hst (B & cyc0 & wk0 & gw & rd & a & R & Hc0 & H & HR & HA & HS & HWw & HX & Eny & Esn & Hk).
  assert (state_dict s = {| sd_snapshot := snap0 c; sd_steps := k; sd_finished := m_finished s |}) as ->.
  { unfold state_dict. rewrite Esn, Eny. cbn [sn_step snap0]. rewrite Nat.sub_0_r. reflexivity. }
  set (d := {| sd_snapshot := snap0 c; sd_steps := k; sd_finished := m_finished s |}).
  assert (S (sn_last (sd_snapshot d)) mod W = 0) as E0.
  { cbn. replace (S (W - 1)) with W by lia. apply Nat.mod_same. lia. }
  pose proof (resume_state c Hkind HW HP Hst (Bw c) d) as T. rewrite E0 in T.
  change (sn_workers (sd_snapshot d)) with (sn_workers (snap0 c)) in T. rewrite map_restored_snap0 in T.
  specialize (T (fresh_workers_ok c Hkind) ltac:(intros w _; cbn; lia) sched).
  rewrite (refsuf_start c Hkind HW) in T. specialize (T Hk).
  destruct T as (sr & sched' & gw1 & rd1 & a1 & R1 & E & H1 & HR1 & HA1 & HS1 & HW1 & HX1 & Eny1 & Esn1).
  exists sr, sched'. split; [exact E|].
  eexists (Bw c), 0, _, gw1, rd1, a1, R1. split; [exact HW|]. split; [exact H1|]. split; [exact HR1|]. split; [exact HA1|]. split; [exact HS1|].
  split; [exact HW1|]. split; [exact HX1|]. split; [exact Eny1|]. split; [exact (Esn1 (or_intror HI0)) | exact Hk].
Qed.

(* checkpoint + resume, fast-forward path (the dataset has no state of its own): fresh workers, the steps replayed *)
Lemma resume_good0_ff k s sched : c_stateful c = false -> Good0 k s ->
  exists sr sched', sdl_resume c (state_dict s) sched = (sr, sched') /\ Good0 k sr.
Proof.
  intros Hnst (B & cyc0 & wk0 & gw & rd & a & R & Hc0 & H & HR & HA & HS & HWw & HX & Eny & Esn & Hk).
  assert (state_dict s = {| sd_snapshot := snap0 c; sd_steps := k; sd_finished := m_finished s |}) as ->.
  { unfold state_dict. rewrite Esn, Eny. cbn [sn_step snap0]. rewrite Nat.sub_0_r. reflexivity. }
  unfold sdl_resume. rewrite Hkind, Hnst. cbn [negb sd_snapshot sd_steps sd_finished].
  match goal with |- context [iter_n (try_put_index c) (c_P c * W) ?S] =>
    assert (S = init0 c 0 (repeat wk_fresh W) 0 0 0 (W - 1) (repeat (0, false) W) (snap0 c)) as -> by reflexivity end.
  destruct (start_iter c Hkind HW HP (Bw c) 0 HW ltac:(intros w _; cbn; lia) wk_fresh0 true (repeat wk_fresh W) 0 0 0 (W - 1)
              (repeat (0, false) W) (snap0 c) (fresh_workers_ok c Hkind) (fresh_entries_ok c (snap0 c) eq_refl)) as (gw2 & rd2 & R2 & H2 & HR2 & HA2 & HS2 & Eny2 & HW2 & HX2).
  cbn zeta in H2, HR2, HA2, HS2, Eny2, HW2, HX2. rewrite (refsuf_start c Hkind HW) in HR2.
  set (s2 := iter_n (try_put_index c) (c_P c * W) _) in *.
  assert (m_snapshot s2 = snap0 c) as Esn2 by (unfold s2; rewrite iter_put_snap; reflexivity).
  rewrite Eny2. cbn [replay Nat.ltb Nat.leb andb].
  match goal with |- context [replay c k ?S sched] => set (s2' := S) end.
  assert (agree s2 s2') as Hag by (unfold agree, s2'; cbn; repeat split; reflexivity).
  assert (agreeS s2 s2') as HagS by (split; [exact Hag | split; [cbn; symmetry; exact Eny2 | reflexivity]]).
  assert (m_info s2' = m_info s2) as Hinf by reflexivity.
  assert (InvC c (Bw c) 0 gw2 rd2 (a0 0) R2 s2') as H2' by (apply (InvC_ext c (Bw c) 0 gw2 rd2 (a0 0) R2 s2 s2' H2 Hag); [rewrite Hinf; exact (c_wf _ _ _ _ _ _ _ _ H2) | intros; rewrite Hinf; reflexivity | rewrite Hinf; reflexivity]).
  pose proof (Rest_agree c (Bw c) gw2 rd2 R2 s2 s2' _ HR2 Hag) as HR2'.
  pose proof (Act_agree c gw2 rd2 (a0 0) s2 s2' HA2 Hag) as HA2'.
  assert (InvS c (Bw c) (m_ny s2') gw2 rd2 s2') as HS2'.
  { change (m_ny s2') with 0. rewrite <- Eny2. exact (InvS_ext c (Bw c) (m_ny s2) gw2 rd2 s2 s2' HS2 HagS ltac:(rewrite Hinf; reflexivity)). }
  assert (InvW c 0 wk_fresh0 true gw2 rd2 (a0 0) s2') as HW2' by (apply (InvW_ext c 0 wk_fresh0 true gw2 rd2 (a0 0) s2 s2' HW2); [unfold agreeW; repeat split; reflexivity | intros; reflexivity]).
  assert (InvX c (Bw c) 0 wk_fresh0 true gw2 rd2 s2') as HX2' by (apply (InvX_ext c (Bw c) 0 wk_fresh0 true gw2 rd2 s2 s2' HX2); [unfold agreeX; repeat split; reflexivity | intros; reflexivity]).
  destruct (replay_iter c Hkind HW HP (Bw c) 0 HW wk_fresh0 true k gw2 rd2 (a0 0) R2 s2' (reference c) sched Hk H2' HR2' HA2' HS2' HW2' HX2')
    as (s4 & sched4 & gw' & rd' & a' & R' & E & H4 & HR4 & HA4 & HS4 & Eny4 & HW4 & HX4 & _).
  rewrite E.
  match goal with |- exists sr sched', (?S, ?SC) = _ /\ _ => set (sF := S) end.
  assert (agree s4 sF) as Hag4 by (unfold agree, sF; cbn; repeat split; reflexivity).
  assert (agreeS s4 sF) as HagS4 by (split; [exact Hag4 | split; reflexivity]).
  exists sF, sched4. split; [reflexivity|].
  exists (Bw c), 0, wk_fresh0, gw', rd', a', R'. split; [exact HW|].
  split; [apply (InvC_ext c (Bw c) 0 gw' rd' a' R' s4 sF H4 Hag4); [exact (c_wf _ _ _ _ _ _ _ _ H4) | intros; reflexivity | reflexivity]|].
  split; [exact (Rest_agree c (Bw c) gw' rd' R' s4 sF _ HR4 Hag4)|]. split; [exact (Act_agree c gw' rd' a' s4 sF HA4 Hag4)|].
  split; [exact (InvS_ext c (Bw c) (m_ny s4) gw' rd' s4 sF HS4 HagS4 eq_refl)|].
  split; [apply (InvW_ext c 0 wk_fresh0 true gw' rd' a' s4 sF HW4); [unfold agreeW; repeat split; reflexivity | intros; reflexivity]|].
  split; [apply (InvX_ext c (Bw c) 0 wk_fresh0 true gw' rd' s4 sF HX4); [unfold agreeX; repeat split; reflexivity | intros; reflexivity]|].
  split; [change (m_ny sF) with (m_ny s4); rewrite Eny4; reflexivity|]. split; [|exact Hk].
  pose proof (replay_snap0 c HI0 k s2' sched) as Hr. rewrite E in Hr. cbn [fst] in Hr. change (m_snapshot sF) with (m_snapshot s4). rewrite Hr. exact Esn2.
Qed.

Lemma resume_good0 k s sched : Good0 k s -> exists sr sched', sdl_resume c (state_dict s) sched = (sr, sched') /\ Good0 k sr.
Proof. intros G. destruct (c_stateful c) eqn:E; [apply resume_good0_st | apply resume_good0_ff]; assumption. Qed.

Lemma chain_good0 : forall ks k s sched, Good0 k s -> k + fold_right Nat.add 0 ks <= length (reference c) ->
  exists s' sched', chain c ks s sched = (s', sched') /\ Good0 (k + fold_right Nat.add 0 ks) s'.
Proof.
  induction ks as [|j ks IH]; intros k s sched G Hk; [exists s, sched; rewrite Nat.add_0_r; auto|].
  cbn [fold_right] in Hk. destruct (replay_good0 j k s sched G ltac:(lia)) as (s1 & sc1 & E1 & G1).
  destruct (resume_good0 (k + j) s1 sc1 G1) as (s2 & sc2 & E2 & G2).
  destruct (IH (k + j) s2 sc2 G2 ltac:(lia)) as (s' & sched' & E' & G').
  exists s', sched'. cbn [chain fold_right]. rewrite E1, E2. split; [exact E'|]. replace (k + (j + fold_right Nat.add 0 ks)) with (k + j + fold_right Nat.add 0 ks) by lia. exact G'.
Qed.

(* C01, iterable datasets, snapshot_every_n_steps = 0, WITH or WITHOUT a state of their own: any finite chain of checkpoint/resume,
   every arrival schedule throughout, yields exactly the remaining stream *)
Theorem iter_resume_chain_I0 : forall ks sched, fold_right Nat.add 0 ks <= length (reference c) ->
  let '(s, sched') := chain c ks (sdl_fresh c) sched in
  let p := fold_right Nat.add 0 ks in
  outcomes c (S (length (reference c) - p)) s sched' = map OBatch (skipn p (reference c)) ++ [OStop].
Proof.
  intros ks sched Hk. destruct (chain_good0 ks 0 (sdl_fresh c) sched fresh_good0 Hk) as (s' & sched' & E & G). rewrite E. cbn zeta. cbn [Nat.add] in G.
  destruct G as (B & cyc0 & wk0 & gw & rd & a & R & Hc0 & H & HR & HA & HS & HWw & HX & _).
  pose proof (outcomes_iter c Hkind HW HP B cyc0 Hc0 wk0 true _ gw rd a R s' sched' H HR HA HS HWw HX) as Ho. rewrite skipn_length in Ho. exact Ho.
Qed.

End NoSnapshotsChain.
Check iter_resume_chain_I0.
Print Assumptions iter_resume_chain_I0.

(* frame: _num_yielded moves only when a batch is handed out, and then by exactly one *)
Section NyFrame.
Variable c : cfg.

Lemma try_put_ny s : m_ny (try_put_index c s) = m_ny s.
Proof.
  unfold try_put_index, fail.
  repeat match goal with |- context [match ?x with _ => _ end] => destruct x end; reflexivity.
Qed.

Lemma skip_ny : forall fuel s, m_ny (snd (skip_retired fuel s)) = m_ny s.
Proof.
  induction fuel as [|f IH]; intros s; [reflexivity|]. cbn [skip_retired].
  destruct (m_rcvd s <? m_send s); [|reflexivity].
  destruct (info_get (m_info s) (m_rcvd s)) as [[w r]|].
  - destruct ((match r with Some _ => true | None => false end) || nth w (m_status s) false); [reflexivity|]. rewrite IH. reflexivity.
  - rewrite IH. reflexivity.
Qed.

Lemma take_snapshot_ny s : m_ny (take_snapshot c s) = m_ny s.
Proof.
  unfold take_snapshot, fail. destruct (pop_msnaps (m_msnaps s) (m_rcvd s - 1) None) as [p rest].
  destruct p as [[i m]|]; [destruct (i =? m_rcvd s - 1)|]; try reflexivity; cbn [m_assert]; destruct (m_assert s); reflexivity.
Qed.

Lemma process_data_ny s r w st o s' : process_data c s r w st = (o, s') ->
  match o with OBatch _ => m_ny s' = S (m_ny s) | _ => True end.
Proof.
  unfold process_data. destruct r as [b| |]; intros E; [|injection E as <- _; exact I | injection E as <- _; exact I].
  match type of E with context [if ?b then _ else _] => destruct b end.
  - match type of E with context [m_assert ?S] => destruct (m_assert S) eqn:EA end; injection E as <- <-; [exact I|].
    cbn [m_ny]. rewrite take_snapshot_ny. cbn [m_ny]. rewrite try_put_ny. reflexivity.
  - cbn [m_assert] in E. destruct (m_assert (try_put_index c s)); injection E as <- <-; [exact I|]. cbn [m_ny]. rewrite try_put_ny. reflexivity.
Qed.

Lemma arrive_ny s w : m_ny (snd (arrive c s w)) = m_ny s.
Proof.
  unfold arrive, fail. destruct (wk_q (nth w (m_workers s) wk_fresh)) as [|t q]; [destruct (m_assert s); reflexivity|].
  destruct (worker_fetch c w _ t) as [[r st] k']. reflexivity.
Qed.

Lemma next_data_f_ny : forall fuel s cr evs o s' cr' evs', next_data_f fuel c s cr evs = (o, s', cr', evs') ->
  match o with FO (OBatch _) => m_ny s' = S (m_ny s) | _ => True end.
Proof.
  induction fuel as [|f IH]; intros s cr evs o s' cr' evs' E; [injection E as <- _ _ _; exact I|].
  cbn [next_data_f] in E. pose proof (skip_ny (S (m_send s)) s) as Es.
  destruct (skip_retired (S (m_send s)) s) as [found s1]. cbn [snd] in Es. rewrite <- Es. clear Es.
  destruct found; cbn [negb] in E; [|injection E as <- _ _ _; exact I].
  destruct (info_get (m_info s1) (m_rcvd s1)) as [[w [[r st]|]]|].
  1:{ destruct r as [b| |].
    + destruct (process_data c _ (RData b) w st) as [o2 s2] eqn:EP. injection E as <- <- _ _. exact (process_data_ny _ _ _ _ _ _ EP).
    + apply IH in E. exact E.
    + destruct (process_data c _ RErr w st) as [o2 s2] eqn:EP. injection E as <- <- _ _. exact (process_data_ny _ _ _ _ _ _ EP). }
  all: (
  match type of E with context [m_outst ?S =? 0] => destruct (m_outst S =? 0) end; [injection E as <- _ _ _; exact I|];
  match type of E with context [match ?EV with FArrive _ => _ | FDie _ => _ | FTimeout => _ end] => destruct EV as [ch|w0|] end;
  [ match type of E with context [fcandidates ?S ?CR] => destruct (fcandidates S CR) as [|fc0 fcs] eqn:Efc end; [apply IH in E; exact E|];
    match type of E with context [arrive ?C ?S ?W2] =>
      pose proof (arrive_ny S W2) as An; destruct (arrive C S W2) as [[[idx r] st] s1'] eqn:EA; cbn [snd] in An end;
    destruct r as [b2| |];
    [ destruct (negb (idx =? m_rcvd s1')); [apply IH in E; cbn [upd_core m_ny] in E; rewrite An in E; exact E|];
      match type of E with context [process_data ?C ?S ?R ?W ?ST] => destruct (process_data C S R W ST) as [o2 s4] eqn:EP end;
      injection E as <- <- _ _; pose proof (process_data_ny _ _ _ _ _ _ EP) as Hp; cbn [upd_core m_ny] in Hp; rewrite An in Hp; exact Hp
    | match type of E with context [try_put_index ?C ?S] => pose proof (try_put_ny S) as Tn; cbn [m_ny] in Tn; set (s2 := try_put_index C S) in * end;
      destruct (negb (idx =? m_rcvd s2)); apply IH in E; cbn [upd_core m_ny] in E; rewrite Tn, An in E; exact E
    | destruct (negb (idx =? m_rcvd s1')); [apply IH in E; cbn [upd_core m_ny] in E; rewrite An in E; exact E|];
      match type of E with context [process_data ?C ?S ?R ?W ?ST] => destruct (process_data C S R W ST) as [o2 s4] eqn:EP end;
      injection E as <- <- _ _; pose proof (process_data_ny _ _ _ _ _ _ EP) as Hp; cbn [upd_core m_ny] in Hp; rewrite An in Hp; exact Hp ]
  | apply IH in E; exact E
  | match type of E with context [crashed_expected ?S ?CR] => destruct (crashed_expected S CR) end;
    [ match type of E with context [match ?EVS with [] => match fcandidates ?S ?CR with _ => _ end | _ => _ end] => destruct EVS; [destruct (fcandidates S CR)|] end;
      try (injection E as <- _ _ _; exact I); apply IH in E; exact E
    | injection E as <- _ _ _; exact I ] ]).
Qed.
End NyFrame.

(* ------------------------------------------------------------------ *)
(* snapshot_every_n_steps = 1, iterable datasets WITHOUT a state of their own: the fast-forward path of a resume — fresh workers, the
   snapshot step replayed, the last-yielded-worker cross-check — and chains of it *)
Section EveryStepFF.
Variable c : cfg.
Hypothesis Hkind : c_kind c = KIter.
Hypothesis HW : 0 < c_W c.
Hypothesis HP : 0 < c_P c.
Hypothesis Hnst : c_stateful c = false.
Hypothesis HI1 : c_I c = 1.
Notation W := (c_W c).

Lemma invS_any B y y' gw rd s : InvS c B y gw rd s -> InvS c B y' gw rd s.
Proof.
  intros [H1 H2 H3 H4]. constructor; [exact H1 | exact H2 | | exact H4].
  intros HI t Ht Hd _. apply (H3 HI t Ht Hd). rewrite HI1. apply Nat.mod_1_r.
Qed.

Definition FreshAt (p : nat) (s : ms) : Prop :=
  exists gw rd a R, InvC c (Bw c) 0 gw rd a R s /\ Rest c (Bw c) gw rd R s (skipn p (reference c)) /\ Act c gw rd a s /\
    InvS c (Bw c) (m_ny s) gw rd s /\ InvW c 0 wk_fresh0 false gw rd a s /\ InvX c (Bw c) 0 wk_fresh0 false gw rd s /\
    m_ny s = p /\ p <= length (reference c) /\ (0 < p -> PostH c (Bw c) gw rd s) /\ (p = 0 -> sn_step (m_snapshot s) = 0) /\
    length (sn_workers (m_snapshot s)) = W.

Lemma ff_entries_ok wsnap snap : length wsnap = W -> sn_workers snap = wsnap ->
  entries_ok c wk_fresh0 false (repeat wk_fresh W) wsnap snap.
Proof.
  intros Hl Hs. split; [intros w Hw; rewrite nth_repeat_fresh'; split; reflexivity|]. split; [exact Hl|]. split; [intros Hf; discriminate | exact Hs].
Qed.

Lemma ff_start ny0 siy0 samp0 last0 wsnap snap : length wsnap = W -> sn_workers snap = wsnap ->
  let s := iter_n (try_put_index c) (c_P c * W) (init0 c 0 (repeat wk_fresh W) ny0 siy0 samp0 last0 wsnap snap) in
  exists gw rd R, InvC c (Bw c) 0 gw rd (a0 0) R s /\ Rest c (Bw c) gw rd R s (reference c) /\ Act c gw rd (a0 0) s /\
    InvS c (Bw c) (m_ny s) gw rd s /\ m_ny s = ny0 /\ InvW c 0 wk_fresh0 false gw rd (a0 0) s /\ InvX c (Bw c) 0 wk_fresh0 false gw rd s.
Proof.
  intros Hl Hs. cbn zeta.
  destruct (start_iter c Hkind HW HP (Bw c) 0 HW ltac:(intros w _; cbn; lia) wk_fresh0 false (repeat wk_fresh W) ny0 siy0 samp0 last0 wsnap snap
              (fresh_workers_ok c Hkind) (ff_entries_ok wsnap snap Hl Hs)) as (gw & rd & R & H & HR & HA & HS & Eny & HWw & HX).
  cbn zeta in *. rewrite (refsuf_start c Hkind HW) in HR. exists gw, rd, R. auto 10.
Qed.

Lemma fresh_at0 : FreshAt 0 (sdl_fresh c).
Proof.
  destruct (ff_start 0 0 0 (W - 1) (repeat (0, false) W) (snap_fresh c) (repeat_length _ _) eq_refl) as (gw & rd & R & H & HR & HA & HS & Eny & HWw & HX).
  cbn zeta in *. change (iter_n (try_put_index c) (c_P c * W) _) with (sdl_fresh c) in *.
  exists gw, rd, (a0 0), R. split; [exact H|]. split; [exact HR|]. split; [exact HA|]. split; [exact HS|]. split; [exact HWw|]. split; [exact HX|].
  split; [exact Eny|]. split; [lia|]. split; [intros Hp; lia|].
  split; [intros _; unfold sdl_fresh; rewrite iter_put_snap; reflexivity|]. unfold sdl_fresh. rewrite iter_put_snap. apply repeat_length.
Qed.

Lemma replay_ff : forall j p s sched, FreshAt p s -> p + j <= length (reference c) ->
  exists s' sched', replay c j s sched = (s', sched') /\ FreshAt (p + j) s'.
Proof.
  intros j p s sched (gw & rd & a & R & H & HR & HA & HS & HWw & HX & Eny & Hp & HPo & Hs0 & Hlen) Hpj.
  destruct j as [|j]; [exists s, sched; split; [reflexivity|]; rewrite Nat.add_0_r; exists gw, rd, a, R; auto 12|].
  destruct (replay_iter c Hkind HW HP (Bw c) 0 HW wk_fresh0 false (S j) gw rd a R s (skipn p (reference c)) sched ltac:(rewrite skipn_length; lia) H HR HA HS HWw HX)
    as (s' & sched' & gw' & rd' & a' & R' & E & H' & HR' & HA' & HS' & Eny' & HW' & HX' & HP').
  exists s', sched'. split; [exact E|]. rewrite skipn_skipn in HR'.
  exists gw', rd', a', R'. split; [exact H'|]. split; [exact HR'|]. split; [exact HA'|]. split; [exact HS'|]. split; [exact HW'|]. split; [exact HX'|].
  split; [lia|]. split; [lia|]. split; [intros _; apply HP'; lia|]. split; [intros E0; lia|].
  destruct (HP' ltac:(lia) HI1) as (_ & Psn & _). rewrite Psn. exact (w_len _ _ _ _ _ _ _ _ HW').
Qed.

Lemma fresh_at_ext p s s' : FreshAt p s -> agree s s' -> m_info s' = m_info s -> m_ny s' = m_ny s -> m_msnaps s' = m_msnaps s ->
  agreeW s s' -> m_last s' = m_last s -> FreshAt p s'.
Proof.
  intros (gw & rd & a & R & H & HR & HA & HS & HWw & HX & Eny & Hp & HPo & Hs0 & Hlen) Hag Hinf Eny' Ems HagW Ela.
  pose proof HagW as (Ew1 & Ew2 & Ew3 & Ew4).
  exists gw, rd, a, R.
  split; [apply (InvC_ext c (Bw c) 0 gw rd a R s s' H Hag); [rewrite Hinf; exact (c_wf _ _ _ _ _ _ _ _ H) | intros; rewrite Hinf; reflexivity | rewrite Hinf; reflexivity]|].
  split; [exact (Rest_agree c (Bw c) gw rd R s s' _ HR Hag)|]. split; [exact (Act_agree c gw rd a s s' HA Hag)|].
  split; [rewrite Eny'; exact (InvS_ext c (Bw c) (m_ny s) gw rd s s' HS (conj Hag (conj Eny' Ems)) ltac:(rewrite Hinf; reflexivity))|].
  split; [apply (InvW_ext c 0 wk_fresh0 false gw rd a s s' HWw HagW); intros; rewrite Hinf; reflexivity|].
  split; [apply (InvX_ext c (Bw c) 0 wk_fresh0 false gw rd s s' HX); [unfold agreeX; auto | intros; rewrite Hinf; reflexivity]|].
  split; [lia|]. split; [exact Hp|].
  split; [intros Hp0; specialize (HPo Hp0); unfold PostH in *; rewrite Ew2, Ew3, Ew4, Eny', Ela; exact HPo|].
  rewrite Ew3. split; assumption.
Qed.

(* checkpoint + resume on the fast-forward path: fresh workers, the p batches of the snapshot step replayed (any arrival schedule), the
   cross-check of the last-yielded worker passes, and the iterator is again a fresh iterator p batches in *)
Lemma resume_ff p s sched : FreshAt p s -> exists sr sched', sdl_resume c (state_dict s) sched = (sr, sched') /\ FreshAt p sr.
Proof.
  intros (gw & rd & a & R & H & HR & HA & HS & HWw & HX & Eny & Hp & HPo & Hs0 & Hlen).
  set (sn := m_snapshot s) in *.
  assert (sn_step sn = p) as Estep.
  { destruct (Nat.eq_dec p 0) as [E0|N0]; [rewrite (Hs0 E0); lia|]. destruct (HPo ltac:(lia) HI1) as (_ & _ & Pst & _). fold sn in Pst. lia. }
  assert (state_dict s = {| sd_snapshot := sn; sd_steps := 0; sd_finished := m_finished s |}) as ->.
  { unfold state_dict. fold sn. rewrite Estep, Eny, Nat.sub_diag. reflexivity. }
  unfold sdl_resume. rewrite Hkind, Hnst. cbn [negb sd_snapshot sd_steps sd_finished].
  match goal with |- context [iter_n (try_put_index c) (c_P c * W) ?S] =>
    assert (S = init0 c 0 (repeat wk_fresh W) (sn_step sn) (fst (sn_main sn)) (snd (sn_main sn)) (W - 1) (sn_workers sn) sn) as -> by reflexivity end.
  destruct (ff_start (sn_step sn) (fst (sn_main sn)) (snd (sn_main sn)) (W - 1) (sn_workers sn) sn Hlen eq_refl) as (gw2 & rd2 & R2 & H2 & HR2 & HA2 & HS2 & Eny2 & HW2 & HX2).
  cbn zeta in H2, HR2, HA2, HS2, Eny2, HW2, HX2.
  set (s2 := iter_n (try_put_index c) (c_P c * W) _) in *.
  assert (m_snapshot s2 = sn) as Esn2 by (unfold s2; rewrite iter_put_snap; reflexivity).
  rewrite Eny2, Estep.
  match goal with |- context [replay c p ?S sched] => set (s2' := S) end.
  assert (agree s2 s2') as Hag by (unfold agree, s2'; cbn; repeat split; reflexivity).
  assert (m_info s2' = m_info s2) as Hinf by reflexivity.
  assert (InvC c (Bw c) 0 gw2 rd2 (a0 0) R2 s2') as H2' by (apply (InvC_ext c (Bw c) 0 gw2 rd2 (a0 0) R2 s2 s2' H2 Hag); [rewrite Hinf; exact (c_wf _ _ _ _ _ _ _ _ H2) | intros; rewrite Hinf; reflexivity | rewrite Hinf; reflexivity]).
  pose proof (Rest_agree c (Bw c) gw2 rd2 R2 s2 s2' _ HR2 Hag) as HR2'.
  pose proof (Act_agree c gw2 rd2 (a0 0) s2 s2' HA2 Hag) as HA2'.
  assert (InvS c (Bw c) (m_ny s2') gw2 rd2 s2') as HS2'.
  { change (m_ny s2') with 0. destruct (invS_any (Bw c) (m_ny s2) 0 gw2 rd2 s2 HS2) as [A1 A2 A3 A4]. constructor; [exact A1 | exact A2 | exact A3 | exact A4]. }
  assert (InvW c 0 wk_fresh0 false gw2 rd2 (a0 0) s2') as HW2' by (apply (InvW_ext c 0 wk_fresh0 false gw2 rd2 (a0 0) s2 s2' HW2); [unfold agreeW; repeat split; reflexivity | intros; reflexivity]).
  assert (InvX c (Bw c) 0 wk_fresh0 false gw2 rd2 s2') as HX2' by (apply (InvX_ext c (Bw c) 0 wk_fresh0 false gw2 rd2 s2 s2' HX2); [unfold agreeX; repeat split; reflexivity | intros; reflexivity]).
  assert (exists s3 sched3, replay c p s2' sched = (s3, sched3) /\ FreshAt p s3 /\ (0 < p -> m_last s3 = sn_last sn)) as (s3 & sched3 & E3 & F3 & L3).
  { destruct p as [|p'].
    - exists s2', sched. split; [reflexivity|]. split; [|intros Hp0; lia].
      exists gw2, rd2, (a0 0), R2. split; [exact H2'|]. split; [exact HR2'|]. split; [exact HA2'|]. split; [exact HS2'|]. split; [exact HW2'|].
      split; [exact HX2'|]. split; [reflexivity|]. split; [lia|]. split; [intros Hp0; lia|].
      change (m_snapshot s2') with (m_snapshot s2). rewrite Esn2. split; [intros _; exact Estep | exact Hlen].
    - destruct (replay_iter c Hkind HW HP (Bw c) 0 HW wk_fresh0 false (S p') gw2 rd2 (a0 0) R2 s2' (reference c) sched Hp H2' HR2' HA2' HS2' HW2' HX2')
        as (s4 & sched4 & gw' & rd' & a' & R' & E & H4 & HR4 & HA4 & HS4 & Eny4 & HW4 & HX4 & HP4).
      specialize (HP4 ltac:(lia)). specialize (HPo ltac:(lia)).
      exists s4, sched4. split; [exact E|]. split.
      + exists gw', rd', a', R'. split; [exact H4|]. split; [exact HR4|]. split; [exact HA4|]. split; [exact HS4|]. split; [exact HW4|].
        split; [exact HX4|]. split; [rewrite Eny4; reflexivity|]. split; [exact Hp|]. split; [intros _; exact HP4|]. split; [intros E0; lia|].
        destruct (HP4 HI1) as (_ & Psn & _). rewrite Psn. exact (w_len _ _ _ _ _ _ _ _ HW4).
      + intros _. destruct (HP4 HI1) as (_ & _ & _ & _ & _ & Pml4). destruct (HPo HI1) as (_ & _ & _ & Pla & _). fold sn in Pla.
        rewrite Pml4, Pla. exact (last_worker_unique c HW HP HI1 (Bw c) 0 gw' rd' a' R' s4 gw rd a R s _ HW H4 HR4 HP4 H HR HPo). }
  rewrite E3.
  assert ((0 <? p) && negb (m_last s3 =? sn_last sn) = false) as ->.
  { destruct p as [|p']; [reflexivity|]. rewrite (L3 ltac:(lia)), Nat.eqb_refl. reflexivity. }
  cbn [replay].
  match goal with |- exists sr sched', (?S, ?SC) = _ /\ _ => set (sF := S) end.
  exists sF, sched3. split; [reflexivity|].
  apply (fresh_at_ext p s3 sF F3); [unfold agree, sF; cbn; repeat split; reflexivity | reflexivity | reflexivity | reflexivity | unfold agreeW; repeat split; reflexivity | reflexivity].
Qed.

Lemma chain_ff : forall ks p s sched, FreshAt p s -> p + fold_right Nat.add 0 ks <= length (reference c) ->
  exists s' sched', chain c ks s sched = (s', sched') /\ FreshAt (p + fold_right Nat.add 0 ks) s'.
Proof.
  induction ks as [|j ks IH]; intros p s sched G Hk; [exists s, sched; rewrite Nat.add_0_r; auto|].
  cbn [fold_right] in Hk. destruct (replay_ff j p s sched G ltac:(lia)) as (s1 & sc1 & E1 & G1).
  destruct (resume_ff (p + j) s1 sc1 G1) as (s2 & sc2 & E2 & G2).
  destruct (IH (p + j) s2 sc2 G2 ltac:(lia)) as (s' & sched' & E' & G').
  exists s', sched'. cbn [chain fold_right]. rewrite E1, E2. split; [exact E'|]. replace (p + (j + fold_right Nat.add 0 ks)) with (p + j + fold_right Nat.add 0 ks) by lia. exact G'.
Qed.

Lemma fresh_at_outcomes p s sched : FreshAt p s ->
  outcomes c (S (length (reference c) - p)) s sched = map OBatch (skipn p (reference c)) ++ [OStop].
Proof.
  intros (gw & rd & a & R & H & HR & HA & HS & HWw & HX & _).
  pose proof (outcomes_iter c Hkind HW HP (Bw c) 0 HW wk_fresh0 false _ gw rd a R s sched H HR HA HS HWw HX) as Ho.
  rewrite skipn_length in Ho. exact Ho.
Qed.

(* C01, iterable datasets WITHOUT a state of their own, snapshot_every_n_steps = 1 (the default): any finite chain of checkpoint/resume
   — each resume builds fresh workers, replays the batches already given and cross-checks the last-yielded worker — yields exactly
   the remaining stream, under every arrival schedule throughout (the replays included) *)
Theorem iter_resume_chain_I1_ff : forall ks sched, fold_right Nat.add 0 ks <= length (reference c) ->
  let '(s, sched') := chain c ks (sdl_fresh c) sched in
  let p := fold_right Nat.add 0 ks in
  outcomes c (S (length (reference c) - p)) s sched' = map OBatch (skipn p (reference c)) ++ [OStop].
Proof.
  intros ks sched Hk. destruct (chain_ff ks 0 (sdl_fresh c) sched fresh_at0 Hk) as (s' & sched' & E & G).
  rewrite E. cbn zeta. exact (fresh_at_outcomes _ s' sched' G).
Qed.

Lemma skipn_cons_S {A} : forall p (l : list A) b rest, skipn p l = b :: rest -> skipn (S p) l = rest /\ p < length l.
Proof.
  induction p as [|p IH]; intros l b rest E.
  - cbn in E. subst l. split; [reflexivity | cbn; lia].
  - destruct l as [|x l]; [discriminate|]. cbn [skipn] in E. destruct (IH l b rest E) as [E1 E2]. split; [exact E1 | cbn; lia].
Qed.

(* one next() under ANY fault schedule from a fresh-at-p state: the batch that is due and a fresh-at-(p+1) state, or StopIteration when
   nothing is left, or the worker-died error *)
Lemma ff_fault_step p s cr evs fuel : FreshAt p s ->
  exists o s' cr' evs', next_data_f fuel c s cr evs = (o, s', cr', evs') /\
    (benignF o \/ match skipn p (reference c) with [] => o = FO OStop | b :: _ => o = FO (OBatch b) /\ FreshAt (S p) s' end).
Proof.
  intros (gw & rd & a & R & H & HR & HA & HS & HWw & HX & Eny & Hp & HPo & Hs0 & Hlen).
  destruct (next_data_f_iter c Hkind HW HP (Bw c) 0 HW wk_fresh0 false fuel gw rd a R s _ cr evs H HR HA HS HWw HX) as (o & s' & cr' & evs' & E & Hpost).
  exists o, s', cr', evs'. split; [exact E|]. destruct Hpost as [Hb|Hpost]; [left; exact Hb|right].
  destruct (skipn p (reference c)) as [|b rest'] eqn:Esk; [exact Hpost|].
  destruct Hpost as [-> (gw' & rd' & a' & R' & H' & HR' & HA' & HS' & HW' & HX' & HP')].
  split; [reflexivity|]. destruct (skipn_cons_S p _ b rest' Esk) as [Esk' Hlt]. pose proof (next_data_f_ny c _ _ _ _ _ _ _ _ E) as Eny'. cbn in Eny'.
  exists gw', rd', a', R'. rewrite Esk'. split; [exact H'|]. split; [exact HR'|]. split; [exact HA'|]. split; [exact HS'|]. split; [exact HW'|].
  split; [exact HX'|]. split; [lia|]. split; [lia|]. split; [intros _; exact HP'|]. split; [intros E0; discriminate|].
  destruct (HP' HI1) as (_ & Psn & _). rewrite Psn. exact (w_len _ _ _ _ _ _ _ _ HW').
Qed.

(* C09 + C01, fast-forward path: the checkpoint taken after ANY batch delivered under ANY fault schedule resumes exactly *)
Theorem ff_checkpoint_after_faulty_step_resumes : forall p b s cr evs fuel s' cr' evs' sched,
  FreshAt p s -> next_data_f fuel c s cr evs = (FO (OBatch b), s', cr', evs') ->
  let '(sr, sched') := sdl_resume c (state_dict s') sched in
  outcomes c (S (length (reference c) - S p)) sr sched' = map OBatch (skipn (S p) (reference c)) ++ [OStop].
Proof.
  intros p b s cr evs fuel s' cr' evs' sched HG E.
  destruct (ff_fault_step p s cr evs fuel HG) as (o & s2 & cr2 & evs2 & E2 & Hpost). rewrite E in E2. injection E2 as <- <- <- <-.
  destruct Hpost as [[[ws Hb]|Hb]|Hpost]; [discriminate | discriminate|].
  destruct (skipn p (reference c)) as [|b0 rest']; [discriminate|]. destruct Hpost as [_ G'].
  destruct (resume_ff (S p) s' sched G') as (sr & sched' & Er & Gr). rewrite Er. exact (fresh_at_outcomes _ sr sched' Gr).
Qed.

End EveryStepFF.

Print Assumptions iter_resume_chain_I1_ff.
Print Assumptions ff_checkpoint_after_faulty_step_resumes.

(* snapshot_every_n_steps = 1, iterable datasets with OR without a state of their own: chains of checkpoint/resume are exact *)
Theorem iter_resume_chain_default : forall c, c_kind c = KIter -> 0 < c_W c -> 0 < c_P c -> c_I c = 1 ->
  forall ks sched, fold_right Nat.add 0 ks <= length (reference c) ->
  let '(s, sched') := chain c ks (sdl_fresh c) sched in
  let p := fold_right Nat.add 0 ks in
  outcomes c (S (length (reference c) - p)) s sched' = map OBatch (skipn p (reference c)) ++ [OStop].
Proof.
  intros c Hkind HW HP HI1. destruct (c_stateful c) eqn:Hst.
  - exact (iter_resume_chain_I1 c Hkind HW HP Hst HI1).
  - exact (iter_resume_chain_I1_ff c Hkind HW HP Hst HI1).
Qed.
Print Assumptions iter_resume_chain_default.
