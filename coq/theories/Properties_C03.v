(* Properties_C03.v — placeholder until SdlProofs.v lands; see DESIGN.md 4 C03. *)
From PD Require Import Base SdlModel SdlObs.
Open Scope list_scope.
Example C03_reference_example :
  reference {| c_kind := KIter; c_W := 3; c_P := 2; c_I := 1; c_bs := 2; c_drop := false;
     c_shards := [[0;1;2;3;4];[100];[200;201;202]]; c_batches := []; c_bad := []; c_stateful := true; c_rewind := false |}
  = [[0; 1]; [100]; [200; 201]; [2; 3]; [202]; [4]].
Proof. vm_compute. reflexivity. Qed.
Theorem C03_placeholder : True. Proof. exact I. Qed.
Print Assumptions C03_placeholder.
