(* Properties_C03.v — C03: each epoch exactly once, in DataLoader order.
   Model: SdlModel.v (the multi-process iterator under an explicit arrival SCHEDULE); proofs: SdlMapProofs.v. *)
From PD Require Import Base SdlModel SdlObs SdlMapProofs SdlIterWorker SdlIterScope SdlIterSmall SdlIterProofs.
Open Scope list_scope. Open Scope nat_scope.

(* map-style datasets, PROVED for every configuration (any num_workers > 0, prefetch_factor > 0, any batch sampler output,
   any snapshot interval) and EVERY arrival schedule: the consumer-visible outcomes of one epoch are exactly the sampler's
   batches, each once, in sampler order (an error outcome standing for a batch that contains a failing index), followed
   by StopIteration; no internal assertion fires.  Hypothesis: snapshot interval <= 1 or no failing index (the complement
   is known finding D9, see Properties_C10.v). *)
Theorem C03_map_epoch_exact : forall c, c_kind c = KMap -> 0 < c_W c -> 0 < c_P c -> c_I c <= 1 \/ c_bad c = [] ->
  forall sched, outcomes c (S (LL c)) (sdl_fresh c) sched = map (want c) (seq 0 (LL c)) ++ [OStop].
Proof. exact map_epoch_exact. Qed.
Print Assumptions C03_map_epoch_exact.

(* the same from ANY point of an epoch: the rest is exactly the remaining batches *)
Theorem C03_map_rest_exact : forall c, c_kind c = KMap -> 0 < c_W c -> 0 < c_P c -> c_bad c = [] ->
  forall off c0 k s sched, Good c off c0 k s ->
  outcomes c (S (LL c - (off + k))) s sched = map (want c) (seq (off + k) (LL c - (off + k))) ++ [OStop].
Proof. exact good_continuation. Qed.
Print Assumptions C03_map_rest_exact.

(* iterable datasets: the FULL statement (proved below as C03_iter_statement_holds; also checked by lockstep correspondence and
   against torch.utils.data.DataLoader on every run): every schedule yields the column-major interleave of the per-worker batch lists *)
Definition C03_iter_statement : Prop :=
  forall c, c_kind c = KIter -> 0 < c_W c -> 0 < c_P c -> length (c_shards c) = c_W c -> c_bad c = [] ->
  forall sched, outcomes c (S (length (reference c))) (sdl_fresh c) sched = map OBatch (reference c) ++ [OStop].

(* iterable datasets, MAIN-process side, PROVED for every configuration (any num_workers > 0, prefetch_factor > 0, ANY snapshot
   interval, any shards incl. empty / uneven ones, any batch_size incl. None, drop_last, rewind habit) and EVERY arrival
   schedule: one epoch yields exactly the column-major interleave of the workers' batch lists, each batch once, then
   StopIteration; no assertion fires (tasks_outstanding bounds, `assert snapshot`, the alignment assertion of
   _take_snapshot), the main process never waits for a result that cannot come, the model's fuel is never exhausted.
   (SdlIterProofs.v: tasks sit at slots of the pure round-robin walk; a worker retires when its end-of-shard notice ARRIVES,
   its remaining slots contribute nothing; no starvation of the shrinking window; every task handed out at a snapshot
   boundary was dispatched with a main snapshot.)  This is the statement that was the target C03_iter_statement. *)
Theorem C03_iter_epoch_exact : forall c, c_kind c = KIter -> 0 < c_W c -> 0 < c_P c ->
  forall sched, outcomes c (S (length (reference c))) (sdl_fresh c) sched = map OBatch (reference c) ++ [OStop].
Proof. exact iter_epoch_exact. Qed.
Print Assumptions C03_iter_epoch_exact.

Corollary C03_iter_statement_holds : C03_iter_statement.
Proof. intros c Hk HW HP _ _ sched. exact (iter_epoch_exact c Hk HW HP sched). Qed.
Print Assumptions C03_iter_statement_holds.

(* PROVED building block of the iterable statement — the worker side, for every batch size (incl. batch_size=None), drop_last,
   rewind habit and every number of tasks: the answers of a fresh worker to its successive tasks are exactly the batches of
   its shard (the per-worker list that `reference` interleaves), in order, then end-of-shard notices and nothing else *)
Theorem C03_iter_worker_answers_exact : forall c, c_kind c = KIter -> forall w ts,
  fst (fetches c w wk_fresh ts) = answers (length ts) (worker_batches c w).
Proof. exact fresh_worker_answers. Qed.
Print Assumptions C03_iter_worker_answers_exact.

(* the iterable statement itself, MAIN-process side included, on a SMALL SCOPE — a finite-domain theorem established by
   computation in the kernel (vm_compute over 480 configurations x 128 schedules, lifted with forallb_forall; SdlIterSmall.v):
   1-2 workers, prefetch_factor 1-2, snapshot interval 0-2, batch_size 1-2, drop_last either way, shards of 0-3 items; every
   arrival schedule whose first 7 choices are arbitrary (later arrivals take the first candidate).  Nothing is claimed
   outside this scope; the unbounded statement stays a target. *)
Theorem C03_iter_epoch_exact_small_scope : forall c sched, In c small_cfgs -> In sched (all_lists [0; 1] 7) ->
  outcomes c (S (length (reference c))) (sdl_fresh c) sched = map OBatch (reference c) ++ [OStop].
Proof. exact iter_epoch_exact_small_scope. Qed.
Print Assumptions C03_iter_epoch_exact_small_scope.

Example C03_reference_example :
  reference {| c_kind := KIter; c_W := 3; c_P := 2; c_I := 1; c_bs := 2; c_drop := false;
     c_shards := [[0;1;2;3;4];[100];[200;201;202]]; c_batches := []; c_bad := []; c_stateful := true; c_rewind := false |}
  = [[0; 1]; [100]; [200; 201]; [2; 3]; [202]; [4]].
Proof. vm_compute. reflexivity. Qed.

(* the iterable statement on a concrete instance under a non-trivial schedule (a test, not the proof) *)
Example C03_iter_instance :
  let c := {| c_kind := KIter; c_W := 3; c_P := 2; c_I := 1; c_bs := 2; c_drop := false;
              c_shards := [[0;1;2;3;4];[100];[200;201;202]]; c_batches := []; c_bad := []; c_stateful := true; c_rewind := false |} in
  outcomes c 7 (sdl_fresh c) [2;0;1;1;0;2;1;0;0;1] = map OBatch (reference c) ++ [OStop].
Proof. vm_compute. reflexivity. Qed.
