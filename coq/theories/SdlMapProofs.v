(* SdlMapProofs.v — map-style datasets: for EVERY arrival schedule the multi-process iterator of SdlModel.v yields the
   sampler's batches exactly once, in order, with an error outcome at exactly the failing batches, and never trips one
   of its own assertions (under: snapshot interval <= 1 or no failing index — the complement is known finding D9). *)
From PD Require Import Base SdlModel SdlProofs.
Open Scope string_scope. Open Scope list_scope. Open Scope nat_scope.

(* ------------------------------------------------------------------ *)
(* counting answered entries of _task_info                              *)
Definition answered {A B} (e : nat * (A * option B)) : bool := match snd (snd e) with Some _ => true | None => false end.
Definition nans {A B} (l : list (nat * (A * option B))) : nat := length (filter answered l).

Section InfoCount.
  Context {A B : Type}.
  Implicit Types l : list (nat * (A * option B)).

  Lemma nans_app l e : nans (l ++ [e]) = nans l + (if answered e then 1 else 0).
  Proof. unfold nans. rewrite filter_app, app_length. cbn. destruct (answered e); cbn; lia. Qed.

  Lemma info_del_len l k v : info_get l k = Some v -> S (length (info_del l k)) = length l.
  Proof.
    induction l as [|[k' v'] l IH]; cbn; [discriminate|].
    destruct (k' =? k); intros H; cbn; [reflexivity|]. rewrite IH by exact H. reflexivity.
  Qed.

  Lemma info_del_nans l k w r : info_get l k = Some (w, r) ->
    nans (info_del l k) + (match r with Some _ => 1 | None => 0 end) = nans l.
  Proof.
    unfold nans. induction l as [|[k' [w' r']] l IH]; cbn; [discriminate|].
    destruct (k' =? k) eqn:E; intros H.
    - injection H as -> ->. unfold answered at 2. cbn. destruct r; cbn; lia.
    - cbn [filter]. specialize (IH H). destruct (answered (k', (w', r'))); cbn [length]; lia.
  Qed.

  Lemma nans_le l : nans l <= length l.
  Proof. unfold nans. induction l as [|e l IH]; cbn; [lia|]. destruct (answered e); cbn; lia. Qed.

  Lemma nans_lt l k w : info_get l k = Some (w, None) -> nans l < length l.
  Proof.
    intros H. pose proof (info_del_nans l k w None H) as H1. pose proof (info_del_len l k _ H) as H2.
    pose proof (nans_le (info_del l k)). cbn in H1. lia.
  Qed.
End InfoCount.

(* ------------------------------------------------------------------ *)
(* pop_msnaps on a list sorted by task index                             *)
Fixpoint msorted (lo : nat) (l : list (nat * mainstate)) : Prop :=
  match l with [] => True | (t, _) :: r => lo <= t /\ msorted (S t) r end.

Lemma msorted_mono lo lo' l : lo' <= lo -> msorted lo l -> msorted lo' l.
Proof. destruct l as [|[t m] l]; cbn; intros; [auto | intuition lia]. Qed.

Lemma msorted_ge lo l t m : msorted lo l -> In (t, m) l -> lo <= t.
Proof.
  revert lo. induction l as [|[t' m'] l IH]; cbn; intros lo H HI; [contradiction|].
  destruct H as [H1 H2]. destruct HI as [E|E]; [injection E as -> ->; lia|]. specialize (IH _ H2 E). lia.
Qed.

Lemma msorted_app lo l t m : msorted lo l -> lo <= t -> (forall t' m', In (t', m') l -> t' < t) -> msorted lo (l ++ [(t, m)]).
Proof.
  revert lo. induction l as [|[t' m'] l IH]; cbn; intros lo H Hlo B; [auto|].
  destruct H as [H1 H2]. split; [exact H1|]. apply IH; [exact H2 | specialize (B t' m' (or_introl eq_refl)); lia | intros; eapply B; eauto].
Qed.

(* everything <= upto is popped; the last popped entry is returned; the rest is everything > upto *)
Lemma pop_msnaps_spec l : forall lo upto lastp,
  msorted lo l ->
  let '(p, rest) := pop_msnaps l upto lastp in
  msorted (S upto) rest /\ (forall e, In e rest <-> In e l /\ upto < fst e) /\
  (p = lastp \/ exists t m, p = Some (t, m) /\ In (t, m) l /\ t <= upto) /\
  (forall t m, In (t, m) l -> t = upto -> p = Some (t, m)).
Proof.
  induction l as [|[t m] l IH]; intros lo upto lastp H; cbn.
  - repeat split; auto; try tauto; try (intros; contradiction).
  - destruct H as [H1 H2]. destruct (t <=? upto) eqn:E.
    + apply Nat.leb_le in E. specialize (IH (S t) upto (Some (t, m)) H2).
      destruct (pop_msnaps l upto (Some (t, m))) as [p rest]. destruct IH as (I1 & I2 & I3 & I4).
      split; [exact I1|]. split.
      * intros e. rewrite I2. split; [intros [Ha Hb]; split; [right; exact Ha | exact Hb]|].
        intros [[Ha|Ha] Hb]; [subst e; cbn in Hb; lia | split; assumption].
      * split.
        -- right. destruct I3 as [->|(t' & m' & -> & Hin & Hle)]; [exists t, m; repeat split; auto | exists t', m'; repeat split; auto].
        -- intros t' m' [Heq|Hin] Hup.
           ++ injection Heq as <- <-. subst.
              destruct I3 as [->|(t' & m' & -> & Hin & Hle)]; [reflexivity|].
              pose proof (msorted_ge _ _ _ _ H2 Hin). lia.
           ++ apply I4; assumption.
    + apply Nat.leb_gt in E. split; [cbn; split; [lia | exact H2]|]. split.
      * intros e. split; [intros Hin; split; [exact Hin|]|intros [Hin _]; exact Hin].
        destruct Hin as [<-|Hin]; [cbn; lia|]. destruct e as [t' m']. pose proof (msorted_ge _ _ _ _ H2 Hin). cbn. lia.
      * split; [left; reflexivity|]. intros t' m' [Heq|Hin] Hup; [injection Heq as <- <-; lia|].
        pose proof (msorted_ge _ _ _ _ H2 Hin). lia.
Qed.

(* ------------------------------------------------------------------ *)
(* queues summed over workers                                            *)
Definition qsum (ws : list wk) : nat := fold_right (fun k n => length (wk_q k) + n) 0 ws.

Lemma qsum_set_nth ws w k' : w < length ws ->
  qsum (set_nth ws w k') + length (wk_q (nth w ws wk_fresh)) = qsum ws + length (wk_q k').
Proof.
  unfold set_nth. revert w. induction ws as [|a ws IH]; intros [|w] H; cbn in *; try lia.
  specialize (IH w ltac:(lia)). unfold qsum in IH. lia.
Qed.

Lemma nth_repeat_true n i : i < n -> nth i (repeat true n) false = true.
Proof. revert i. induction n as [|n IH]; intros [|i] H; cbn; try lia; auto. apply IH. lia. Qed.

Lemma find_worker_all_true W n : 0 < W ->
  find_worker W W (repeat true W) (n mod W) = (Some (n mod W), S (n mod W) mod W).
Proof.
  intros HW. pose proof (Nat.mod_upper_bound n W ltac:(lia)) as Hlt.
  destruct W as [|w0]; [lia|]. apply find_worker_hit. apply nth_repeat_true. exact Hlt.
Qed.

Ltac proj := cbn [m_send m_rcvd m_info m_outst m_status m_cyc m_ny m_siy m_samp m_msnaps m_last m_wsnap m_snapshot
                    m_finished m_workers m_assert fst snd].

(* ------------------------------------------------------------------ *)
Section MapStyle.
Variable c : cfg.
Hypothesis Hkind : c_kind c = KMap.
Hypothesis HW : 0 < c_W c.
Hypothesis HP : 0 < c_P c.
(* The iterator under study was started (freshly, or from a loaded state) with the sampler at batch number `off`, the worker
   cycle at `c0` and _num_yielded = ny0; its tasks are numbered 0, 1, ... and task t carries batch number off + t. *)
Variables off c0 ny0 : nat.

Definition L := length (c_batches c) - off.
Definition batch (t : nat) := nth (off + t) (c_batches c) [].
Definition isbad (t : nat) := existsb (fun i => existsb (Nat.eqb i) (c_bad c)) (batch t).
Definition res (t : nat) := if isbad t then RErr else RData (batch t).
Definition fmain (t : nat) := negb (c_I c =? 0) && (S (off + t) mod c_I c =? 0).
Definition fsnap (t : nat) := negb (c_I c =? 0) && (c_I c <=? ((off + t) mod c_I c) + c_W c).
Definition st_of (t : nat) : option wsave := if fsnap t then Some (0, false) else None.
Definition task_of (t : nat) := {| t_idx := t; t_index := batch t; t_snap := fsnap t |}.
Definition nerr (k : nat) := length (filter isbad (seq 0 k)).
Definition wof (t : nat) := (c0 + t) mod c_W c.            (* the worker that task t is dispatched to *)
Definition mst (t : nat) : mainstate := (S (off + t), S (off + t)).   (* the main snapshot recorded with task t *)

Record InvG (k n : nat) (s : ms) : Prop := {
  g_kn : k <= n <= L;
  g_rcvd : m_rcvd s = k; g_send : m_send s = n; g_siy : m_siy s = off + n; g_samp : m_samp s = off + n;
  g_cyc : m_cyc s = wof n;
  g_wf : wf_info (m_info s);
  g_info : forall t, match info_get (m_info s) t with
                     | Some (w, r) => k <= t < n /\ w = wof t /\ (r = None \/ r = Some (res t, st_of t))
                     | None => ~ (k <= t < n)
                     end;
  g_len : length (m_info s) = n - k;
  g_cnt : m_outst s + nans (m_info s) = length (m_info s);
  g_wlen : length (m_workers s) = c_W c;
  g_q : forall w, w < c_W c ->
          sorted_from k (map t_idx (wk_q (nth w (m_workers s) wk_fresh))) /\
          (forall tk, In tk (wk_q (nth w (m_workers s) wk_fresh)) -> tk = task_of (t_idx tk)) /\
          (forall t, In t (map t_idx (wk_q (nth w (m_workers s) wk_fresh))) <->
                     (wof t = w /\ info_get (m_info s) t = Some (w, None)));
  g_dead : forall w, w < c_W c -> wk_dead (nth w (m_workers s) wk_fresh) = false;
  g_status : m_status s = repeat true (c_W c);
  g_ms : msorted 0 (m_msnaps s) /\
         (forall t m, In (t, m) (m_msnaps s) -> t < n /\ fmain t = true /\ m = mst t) /\
         (forall t, k <= t < n -> fmain t = true -> In (t, mst t) (m_msnaps s));
  g_assert : m_assert s = None }.

(* the parts of the state that try_put_index never touches *)
Definition same_rest (s s' : ms) : Prop :=
  m_rcvd s' = m_rcvd s /\ m_ny s' = m_ny s /\ m_last s' = m_last s /\ m_wsnap s' = m_wsnap s /\
  m_snapshot s' = m_snapshot s /\ m_finished s' = m_finished s.

(* a main snapshot is only requested together with a worker snapshot: `assert snapshot` cannot fire *)
Lemma fmain_fsnap t : fmain t = true -> fsnap t = true.
Proof.
  unfold fmain, fsnap. generalize (off + t). clear t. intros t.
  destruct (c_I c =? 0) eqn:EI; cbn; [discriminate|]. apply Nat.eqb_neq in EI.
  intros H. apply Nat.eqb_eq in H. apply Nat.leb_le.
  assert (t mod c_I c = c_I c - 1) as ->; [|lia].
  pose proof (Nat.mod_upper_bound t (c_I c) EI) as Hlt.
  assert (S t = c_I c * (S t / c_I c)) as Hd by (pose proof (Nat.div_mod (S t) (c_I c) EI); lia).
  destruct (S t / c_I c) as [|q] eqn:Eq; [lia|].
  assert (t = c_I c * q + (c_I c - 1)) as Ht by nia.
  rewrite Ht at 1. rewrite Nat.add_comm, Nat.mul_comm, Nat.mod_add by exact EI. apply Nat.mod_small. lia.
Qed.

Lemma wof_lt t : wof t < c_W c.
Proof. unfold wof. apply Nat.mod_upper_bound. lia. Qed.

Lemma succ_wof n : S (wof n) mod c_W c = wof (S n).
Proof.
  assert (c_W c <> 0) as Hne by lia. unfold wof.
  replace (S ((c0 + n) mod c_W c)) with ((c0 + n) mod c_W c + 1) by lia. replace (c0 + S n) with (c0 + n + 1) by lia.
  rewrite Nat.add_mod_idemp_l by exact Hne. reflexivity.
Qed.

Lemma info_get_fresh s k n t : InvG k n s -> ~ (k <= t < n) -> info_get (m_info s) t = None.
Proof.
  intros H Hn. pose proof (g_info _ _ _ H t) as G. destruct (info_get (m_info s) t) as [[w r]|]; [|reflexivity]. tauto.
Qed.

Lemma find_worker_W n :
  find_worker (c_W c) (c_W c) (repeat true (c_W c)) (wof n) = (Some (wof n), wof (S n)).
Proof. rewrite <- succ_wof. apply find_worker_all_true. exact HW. Qed.

Lemma flags_eq n :
  (if c_I c =? 0 then (false, false)
   else (S (off + n) mod c_I c =? 0, c_I c <=? (S (off + n) - 1) mod c_I c + c_W c)) = (fmain n, fsnap n).
Proof.
  unfold fmain, fsnap. replace (S (off + n) - 1) with (off + n) by lia. destruct (c_I c =? 0); reflexivity.
Qed.

Lemma try_put_inv k n s : InvG k n s -> n < L -> n - k < c_W c * c_P c ->
  InvG k (S n) (try_put_index c s) /\ same_rest s (try_put_index c s).
Proof.
  intros H HnL Hroom.
  assert (m_outst s <? c_P c * c_W c = true) as Hout.
  { apply Nat.ltb_lt. pose proof (g_cnt _ _ _ H). pose proof (g_len _ _ _ H). rewrite Nat.mul_comm. lia. }
  assert (nth_error (c_batches c) (off + n) = Some (batch n)) as Hb by (unfold batch; apply nth_error_nth'; unfold L in HnL; lia).
  pose proof (wof_lt n) as Hwlt.
  unfold try_put_index. rewrite Hout, Hkind, (g_samp _ _ _ H), Hb, (g_siy _ _ _ H), flags_eq.
  rewrite (g_status _ _ _ H), (g_cyc _ _ _ H), find_worker_W.
  assert (fmain n && negb (fsnap n) = false) as Hfl.
  { destruct (fmain n) eqn:E; [rewrite (fmain_fsnap n E); reflexivity | reflexivity]. }
  rewrite Hfl. cbn [fst snd].
  set (w := wof n) in *.
  split; [|repeat split; reflexivity].
  pose proof (g_kn _ _ _ H) as [Hkn HnL'].
  assert (info_get (m_info s) n = None) as Hfresh by (eapply info_get_fresh; [exact H | lia]).
  assert (forall t, info_get (m_info s ++ [(n, (w, @None (result * option wsave)))]) t =
                    if t =? n then Some (w, None) else info_get (m_info s) t) as Hget.
  { intros t. rewrite info_get_app. destruct (Nat.eqb_spec t n) as [->|Hne].
    - rewrite Hfresh, Nat.eqb_refl. reflexivity.
    - destruct (info_get (m_info s) t); [reflexivity|]. destruct (Nat.eqb_spec n t); [lia | reflexivity]. }
  constructor; proj.
  - lia.
  - exact (g_rcvd _ _ _ H).
  - rewrite (g_send _ _ _ H). reflexivity.
  - lia.
  - lia.
  - reflexivity.
  - rewrite (g_send _ _ _ H). apply wf_app; [exact (g_wf _ _ _ H) | exact Hfresh].
  - intros t. rewrite (g_send _ _ _ H), Hget. destruct (Nat.eqb_spec t n) as [->|Hne].
    + repeat split; auto; lia.
    + pose proof (g_info _ _ _ H t) as G. destruct (info_get (m_info s) t) as [[w' r]|]; [|lia]. destruct G as (G1 & G2 & G3). repeat split; auto; lia.
  - rewrite app_length, (g_len _ _ _ H). cbn [length]. lia.
  - rewrite nans_app, app_length. cbn [length answered snd]. pose proof (g_cnt _ _ _ H). lia.
  - rewrite set_nth_length. exact (g_wlen _ _ _ H).
  - intros w' Hw'. rewrite (g_send _ _ _ H). destruct (g_q _ _ _ H w' Hw') as (Q1 & Q2 & Q3).
    destruct (Nat.eq_dec w' w) as [->|Hne].
    + rewrite nth_set_nth_eq by (rewrite (g_wlen _ _ _ H); exact Hw'). cbn. rewrite map_app. cbn. split; [|split].
      * apply sorted_from_app; [exact Q1 | lia |]. intros y Hy. apply Q3 in Hy. destruct Hy as [_ Hy].
        pose proof (g_info _ _ _ H y) as G. rewrite Hy in G. lia.
      * intros tk Hin. apply in_app_or in Hin. destruct Hin as [Hin|[<-|[]]]; [apply Q2, Hin | reflexivity].
      * intros t. rewrite in_app_iff, Hget. cbn. destruct (Nat.eqb_spec t n) as [->|Hnt].
        -- split; [intros _; split; reflexivity | intros _; right; left; reflexivity].
        -- rewrite Q3. split; [intros [Ha|[Ha|[]]]; [exact Ha | lia] | intros Ha; left; exact Ha].
    + rewrite nth_set_nth_neq by (intros E; apply Hne; symmetry; exact E). split; [exact Q1 | split; [exact Q2|]].
      intros t. rewrite Hget, Q3. destruct (Nat.eqb_spec t n) as [->|Hnt]; [|reflexivity].
      rewrite Hfresh. split; [intros [_ Hx]; discriminate | intros [Ha Hb0]; fold w in Ha; congruence].
  - intros w' Hw'. destruct (Nat.eq_dec w' w) as [->|Hne].
    + rewrite nth_set_nth_eq by (rewrite (g_wlen _ _ _ H); exact Hw'). cbn. exact (g_dead _ _ _ H w Hw').
    + rewrite nth_set_nth_neq by (intros E; apply Hne; symmetry; exact E). exact (g_dead _ _ _ H w' Hw').
  - first [reflexivity | exact (g_status _ _ _ H)].
  - rewrite (g_send _ _ _ H). destruct (g_ms _ _ _ H) as (M1 & M2 & M3). destruct (fmain n) eqn:Ef.
    + split; [|split].
      * apply msorted_app; [exact M1 | lia |]. intros t' m' Hin. apply M2 in Hin. lia.
      * intros t m Hin. apply in_app_or in Hin. destruct Hin as [Hin|[Heq|[]]].
        -- apply M2 in Hin. destruct Hin as (Ha & Hb1 & Hc). repeat split; auto.
        -- injection Heq as <- <-. repeat split; auto.
      * intros t Ht Hf. apply in_or_app. destruct (Nat.eq_dec t n) as [->|Hne]; [right; left; reflexivity | left; apply M3; [lia | exact Hf]].
    + split; [exact M1 | split].
      * intros t m Hin. apply M2 in Hin. destruct Hin as (Ha & Hb1 & Hc). repeat split; auto.
      * intros t Ht Hf. destruct (Nat.eq_dec t n) as [->|Hne]; [congruence | apply M3; [lia | exact Hf]].
  - exact (g_assert _ _ _ H).
Qed.

Lemma try_put_end k s : InvG k L s -> L - k < c_W c * c_P c -> try_put_index c s = s.
Proof.
  intros H Hroom.
  assert (m_outst s <? c_P c * c_W c = true) as Hout.
  { apply Nat.ltb_lt. pose proof (g_cnt _ _ _ H). pose proof (g_len _ _ _ H). rewrite Nat.mul_comm. lia. }
  unfold try_put_index. rewrite Hout, Hkind, (g_samp _ _ _ H).
  assert (nth_error (c_batches c) (off + L) = None) as -> by (apply nth_error_None; pose proof (g_kn _ _ _ H); unfold L in *; lia).
  reflexivity.
Qed.

Lemma sorted_from_skip lo l : sorted_from lo l -> ~ In lo l -> sorted_from (S lo) l.
Proof.
  destruct l as [|x l]; cbn; [auto|]. intros [H1 H2] Hn. split; [|exact H2].
  destruct (Nat.eq_dec x lo); [subst; tauto | lia].
Qed.

(* removing the entry of task k from _task_info once it is handed to the user: the invariant moves to k+1 *)
Lemma inv_advance k n s s' : InvG k n s -> k < n ->
  m_rcvd s' = S k -> m_send s' = m_send s -> m_siy s' = m_siy s -> m_samp s' = m_samp s -> m_cyc s' = m_cyc s ->
  m_info s' = info_del (m_info s) k ->
  m_outst s' + nans (info_del (m_info s) k) = length (info_del (m_info s) k) ->
  length (m_workers s') = c_W c ->
  (forall w, w < c_W c ->
     wk_dead (nth w (m_workers s') wk_fresh) = false /\
     (forall tk, In tk (wk_q (nth w (m_workers s') wk_fresh)) -> In tk (wk_q (nth w (m_workers s) wk_fresh))) /\
     sorted_from (S k) (map t_idx (wk_q (nth w (m_workers s') wk_fresh))) /\
     (forall t, t <> k -> (In t (map t_idx (wk_q (nth w (m_workers s') wk_fresh))) <-> In t (map t_idx (wk_q (nth w (m_workers s) wk_fresh)))))) ->
  m_status s' = m_status s -> m_msnaps s' = m_msnaps s -> m_assert s' = m_assert s ->
  (exists w r, info_get (m_info s) k = Some (w, r)) ->
  InvG (S k) n s'.
Proof.
  intros H Hkn E1 E2 E3 E4 E5 E6 E7 E8 E9 E10 E11 E12 [w0 [r0 Hk]].
  pose proof (g_wf _ _ _ H) as Hwf.
  assert (forall t, info_get (info_del (m_info s) k) t = if t =? k then None else info_get (m_info s) t) as Hget.
  { intros t. destruct (Nat.eqb_spec t k) as [->|Hne]; [apply info_get_del_eq, Hwf | apply info_get_del_neq; lia]. }
  constructor.
  - pose proof (g_kn _ _ _ H). lia.
  - exact E1.
  - rewrite E2. exact (g_send _ _ _ H).
  - rewrite E3. exact (g_siy _ _ _ H).
  - rewrite E4. exact (g_samp _ _ _ H).
  - rewrite E5. exact (g_cyc _ _ _ H).
  - rewrite E6. apply wf_del, Hwf.
  - intros t. rewrite E6, Hget. destruct (Nat.eqb_spec t k) as [->|Hne]; [lia|].
    pose proof (g_info _ _ _ H t) as G. destruct (info_get (m_info s) t) as [[w r]|]; [|lia].
    destruct G as (G1 & G2 & G3). repeat split; auto; lia.
  - rewrite E6. pose proof (info_del_len _ _ _ Hk). pose proof (g_len _ _ _ H). lia.
  - rewrite E6. exact E7.
  - exact E8.
  - intros w Hw. destruct (E9 w Hw) as (D1 & D2 & D3 & D4). destruct (g_q _ _ _ H w Hw) as (Q1 & Q2 & Q3).
    split; [exact D3 | split].
    + intros tk Hin. apply Q2, D2, Hin.
    + intros t. rewrite E6, Hget. destruct (Nat.eqb_spec t k) as [->|Hne].
      * split; [|intros [_ Hx]; discriminate]. intros Hin.
        assert (forall l, sorted_from (S k) l -> ~ In k l) as Hno.
        { intros l Hs Hi. pose proof (sorted_from_ge _ _ _ Hs Hi). lia. }
        exfalso. eapply Hno; eauto.
      * rewrite D4 by exact Hne. apply Q3.
  - intros w Hw. exact (proj1 (E9 w Hw)).
  - rewrite E10. exact (g_status _ _ _ H).
  - rewrite E11. destruct (g_ms _ _ _ H) as (M1 & M2 & M3). split; [exact M1 | split; [exact M2|]]. intros t Ht. apply M3. lia.
  - rewrite E12. exact (g_assert _ _ _ H).
Qed.

(* ------------------------------------------------------------------ *)
(* one arrival *)
Definition arr_state (s : ms) (w : nat) (q' : list task) : ms :=
  let kk := nth w (m_workers s) wk_fresh in
  {| m_send := m_send s; m_rcvd := m_rcvd s; m_info := m_info s; m_outst := m_outst s - 1; m_status := m_status s;
     m_cyc := m_cyc s; m_ny := m_ny s; m_siy := m_siy s; m_samp := m_samp s; m_msnaps := m_msnaps s;
     m_last := m_last s; m_wsnap := m_wsnap s; m_snapshot := m_snapshot s; m_finished := m_finished s;
     m_workers := set_nth (m_workers s) w {| wk_pos := wk_pos kk; wk_ended := wk_ended kk; wk_dead := wk_dead kk; wk_q := q' |};
     m_assert := m_assert s |}.

Lemma arrive_map s w t q' :
  wk_q (nth w (m_workers s) wk_fresh) = task_of t :: q' ->
  arrive c s w = ((t, res t, st_of t), arr_state s w q').
Proof.
  intros Hq. unfold arrive. rewrite Hq. unfold worker_fetch. rewrite Hkind. cbn [t_index t_snap t_idx task_of].
  unfold res, isbad, st_of, arr_state. reflexivity.
Qed.

Lemma queue_head k n s w tk q' : InvG k n s -> w < c_W c ->
  wk_q (nth w (m_workers s) wk_fresh) = tk :: q' ->
  tk = task_of (t_idx tk) /\ k <= t_idx tk < n /\ wof (t_idx tk) = w /\ info_get (m_info s) (t_idx tk) = Some (w, None) /\
  sorted_from (S (t_idx tk)) (map t_idx q') /\ ~ In (t_idx tk) (map t_idx q').
Proof.
  intros H Hw Hq. destruct (g_q _ _ _ H w Hw) as (Q1 & Q2 & Q3). rewrite Hq in *. cbn in Q1. destruct Q1 as [Q1a Q1b].
  assert (tk = task_of (t_idx tk)) as E by (apply Q2; left; reflexivity).
  destruct (proj1 (Q3 (t_idx tk)) (or_introl eq_refl)) as [Hm Hi].
  pose proof (g_info _ _ _ H (t_idx tk)) as G. rewrite Hi in G.
  repeat split; try tauto; try lia.
  intros Hin. pose proof (sorted_from_ge _ _ _ Q1b Hin). lia.
Qed.

Lemma info_set_len {A B} (l : list (nat * (A * option B))) k v v0 : info_get l k = Some v0 -> length (info_set l k v) = length l.
Proof. intros H. unfold info_set. rewrite app_length. pose proof (info_del_len l k v0 H). cbn. lia. Qed.

(* an out-of-order arrival is buffered: same invariant, one task fewer in the queues *)
Lemma buffer_inv k n s w t q' : InvG k n s -> w < c_W c ->
  wk_q (nth w (m_workers s) wk_fresh) = task_of t :: q' -> t <> k ->
  let s1 := arr_state s w q' in
  let sb := upd_core s1 (m_rcvd s1) (info_set (m_info s1) t (w, Some (res t, st_of t))) (m_wsnap s1) in
  InvG k n sb /\ S (qsum (m_workers sb)) = qsum (m_workers s) /\ m_ny sb = m_ny s.
Proof.
  intros H Hw Hq Hne s1 sb.
  destruct (queue_head _ _ _ _ _ _ H Hw Hq) as (_ & Hr & Hm & Hi & Hs & Hni). cbn [t_idx task_of] in *.
  pose proof (g_wf _ _ _ H) as Hwf.
  assert (forall t', info_get (info_set (m_info s) t (w, Some (res t, st_of t))) t' =
                     if t =? t' then Some (w, Some (res t, st_of t)) else info_get (m_info s) t') as Hget
      by (intros; apply info_get_set, Hwf).
  assert (0 < m_outst s) as Hpos.
  { pose proof (nans_lt _ _ _ Hi). pose proof (g_cnt _ _ _ H). lia. }
  split; [|split; [|reflexivity]].
  - constructor; unfold sb, s1, upd_core, arr_state; proj.
    + exact (g_kn _ _ _ H).
    + exact (g_rcvd _ _ _ H).
    + exact (g_send _ _ _ H).
    + exact (g_siy _ _ _ H).
    + exact (g_samp _ _ _ H).
    + exact (g_cyc _ _ _ H).
    + apply wf_set, Hwf.
    + intros t'. rewrite Hget. destruct (Nat.eqb_spec t t') as [<-|Hnt].
      * repeat split; auto; lia.
      * apply (g_info _ _ _ H t').
    + rewrite (info_set_len _ _ _ _ Hi). exact (g_len _ _ _ H).
    + rewrite (info_set_len _ _ _ _ Hi). unfold info_set. rewrite nans_app. cbn [answered snd].
      pose proof (info_del_nans _ _ _ _ Hi) as Hn. cbn in Hn. pose proof (g_cnt _ _ _ H). lia.
    + rewrite set_nth_length. exact (g_wlen _ _ _ H).
    + intros w' Hw'. destruct (g_q _ _ _ H w' Hw') as (Q1 & Q2 & Q3).
      destruct (Nat.eq_dec w' w) as [->|Hnw].
      * rewrite nth_set_nth_eq by (rewrite (g_wlen _ _ _ H); exact Hw). cbn [wk_q]. rewrite Hq in *. cbn in Q1. split; [|split].
        -- apply sorted_from_mono with (lo := S t); [lia | exact Hs].
        -- intros tk Hin. apply Q2. right. exact Hin.
        -- intros t'. rewrite Hget. destruct (Nat.eqb_spec t t') as [<-|Hnt].
           ++ split; [intros Hin; contradiction | intros [_ Hx]; discriminate].
           ++ rewrite <- Q3. cbn. split; [intros Hin; right; exact Hin | intros [Hx|Hx]; [congruence | exact Hx]].
      * rewrite nth_set_nth_neq by (intros E; apply Hnw; symmetry; exact E). split; [exact Q1 | split; [exact Q2|]].
        intros t'. rewrite Hget, Q3. destruct (Nat.eqb_spec t t') as [<-|Hnt]; [|reflexivity].
        split; [intros [Ha _]; congruence | intros [Ha _]; congruence].
    + intros w' Hw'. destruct (Nat.eq_dec w' w) as [->|Hnw].
      * rewrite nth_set_nth_eq by (rewrite (g_wlen _ _ _ H); exact Hw). cbn. exact (g_dead _ _ _ H w Hw).
      * rewrite nth_set_nth_neq by (intros E; apply Hnw; symmetry; exact E). exact (g_dead _ _ _ H w' Hw').
    + exact (g_status _ _ _ H).
    + exact (g_ms _ _ _ H).
    + exact (g_assert _ _ _ H).
  - unfold sb, s1, upd_core, arr_state. proj.
    pose proof (qsum_set_nth (m_workers s) w {| wk_pos := wk_pos (nth w (m_workers s) wk_fresh); wk_ended := wk_ended (nth w (m_workers s) wk_fresh);
                                                 wk_dead := wk_dead (nth w (m_workers s) wk_fresh); wk_q := q' |}
                  ltac:(rewrite (g_wlen _ _ _ H); exact Hw)) as HQ.
    rewrite Hq in HQ. cbn [wk_q length] in HQ. lia.
Qed.

(* the awaited task arrives: it is taken out of _task_info and rcvd_idx moves on *)
Lemma deliver_direct k n s w q' : InvG k n s -> w < c_W c ->
  wk_q (nth w (m_workers s) wk_fresh) = task_of k :: q' ->
  let s1 := arr_state s w q' in
  let s3 := upd_core s1 (S (m_rcvd s1)) (info_del (m_info s1) k) (m_wsnap s1) in
  InvG (S k) n s3 /\ m_ny s3 = m_ny s /\ w = wof k.
Proof.
  intros H Hw Hq s1 s3.
  destruct (queue_head _ _ _ _ _ _ H Hw Hq) as (_ & Hr & Hm & Hi & Hs & Hni). cbn [t_idx task_of] in *.
  assert (0 < m_outst s) as Hpos.
  { pose proof (nans_lt _ _ _ Hi). pose proof (g_cnt _ _ _ H). lia. }
  split; [|split; [reflexivity | symmetry; exact Hm]].
  apply (inv_advance k n s s3 H); unfold s3, s1, upd_core, arr_state; proj; try reflexivity.
  - lia.
  - rewrite (g_rcvd _ _ _ H). reflexivity.
  - pose proof (info_del_nans _ _ _ _ Hi) as Hn. cbn in Hn. pose proof (info_del_len _ _ _ Hi). pose proof (g_cnt _ _ _ H). lia.
  - rewrite set_nth_length. exact (g_wlen _ _ _ H).
  - intros w' Hw'. destruct (g_q _ _ _ H w' Hw') as (Q1 & Q2 & Q3).
    destruct (Nat.eq_dec w' w) as [->|Hnw].
    + rewrite nth_set_nth_eq by (rewrite (g_wlen _ _ _ H); exact Hw). cbn [wk_q wk_dead]. rewrite Hq. split; [exact (g_dead _ _ _ H w Hw)|].
      split; [intros tk Hin; right; exact Hin|]. split; [exact Hs|].
      intros t Hne. cbn. split; [intros Hin; right; exact Hin | intros [Hx|Hx]; [congruence | exact Hx]].
    + rewrite nth_set_nth_neq by (intros E; apply Hnw; symmetry; exact E). split; [exact (g_dead _ _ _ H w' Hw')|].
      split; [auto|]. split; [|tauto].
      apply sorted_from_skip; [exact Q1|]. intros Hin. apply Q3 in Hin. destruct Hin as [Hx _]. congruence.
  - exists w, None. exact Hi.
Qed.

(* the awaited task had arrived earlier and is taken from _task_info *)
Lemma deliver_buffered k n s w r st : InvG k n s -> k < n ->
  info_get (m_info s) k = Some (w, Some (r, st)) ->
  let s1 := upd_core s (S (m_rcvd s)) (info_del (m_info s) k) (m_wsnap s) in
  InvG (S k) n s1 /\ m_ny s1 = m_ny s /\ w = wof k /\ r = res k /\ st = st_of k.
Proof.
  intros H Hkn Hi s1. pose proof (g_info _ _ _ H k) as G. rewrite Hi in G. destruct G as (_ & Gw & [Gr|Gr]); [discriminate|].
  injection Gr as -> ->. split; [|repeat split; auto].
  apply (inv_advance k n s s1 H); unfold s1, upd_core; proj; try reflexivity.
  - exact Hkn.
  - rewrite (g_rcvd _ _ _ H). reflexivity.
  - pose proof (info_del_nans _ _ _ _ Hi) as Hn. cbn in Hn. pose proof (info_del_len _ _ _ Hi). pose proof (g_cnt _ _ _ H). lia.
  - exact (g_wlen _ _ _ H).
  - intros w' Hw'. destruct (g_q _ _ _ H w' Hw') as (Q1 & Q2 & Q3). split; [exact (g_dead _ _ _ H w' Hw')|].
    split; [auto|]. split; [|tauto].
    apply sorted_from_skip; [exact Q1|]. intros Hin. apply Q3 in Hin. destruct Hin as [_ Hx]. rewrite Hi in Hx. discriminate.
  - eauto.
Qed.

(* ------------------------------------------------------------------ *)
(* handing a result to the user: _process_data *)
Hypothesis Hgood : c_I c <= 1 \/ (c_bad c = [] /\ ny0 = off).

Definition expected (k : nat) : outcome := if isbad k then OErr else OBatch (batch k).
Definition nextn (n : nat) : nat := if n <? L then S n else n.

Lemma nerr_S k : nerr (S k) = nerr k + (if isbad k then 1 else 0).
Proof. unfold nerr. rewrite seq_S, filter_app, app_length. cbn. destruct (isbad k); cbn; lia. Qed.

Lemma nerr_nobad k : c_bad c = [] -> nerr k = 0.
Proof.
  intros Hb. unfold nerr. induction k as [|k IH]; [reflexivity|]. rewrite seq_S, filter_app, app_length, IH. cbn.
  unfold isbad. rewrite Hb, existsb_bad_nil. reflexivity.
Qed.

Lemma inv_frame k n s s' : InvG k n s ->
  m_rcvd s' = m_rcvd s -> m_send s' = m_send s -> m_siy s' = m_siy s -> m_samp s' = m_samp s -> m_cyc s' = m_cyc s ->
  m_info s' = m_info s -> m_outst s' = m_outst s -> m_workers s' = m_workers s -> m_status s' = m_status s ->
  m_assert s' = m_assert s ->
  (msorted 0 (m_msnaps s') /\
   (forall t m, In (t, m) (m_msnaps s') -> t < n /\ fmain t = true /\ m = mst t) /\
   (forall t, k <= t < n -> fmain t = true -> In (t, mst t) (m_msnaps s'))) ->
  InvG k n s'.
Proof.
  intros H E1 E2 E3 E4 E5 E6 E7 E8 E9 E10 HM.
  constructor; rewrite ?E1, ?E2, ?E3, ?E4, ?E5, ?E6, ?E7, ?E8, ?E9, ?E10; try apply H; exact HM.
Qed.

(* what state_dict() hands out: without failing indices the snapshot names the batch number to restart from (= its step) *)
Definition Snap (s : ms) : Prop :=
  length (sn_workers (m_snapshot s)) = c_W c /\ length (m_wsnap s) = c_W c /\ m_finished s = false /\
  (c_bad c = [] -> ny0 = off ->
   sn_main (m_snapshot s) = (sn_step (m_snapshot s), sn_step (m_snapshot s)) /\
   off <= sn_step (m_snapshot s) <= m_ny s).

Lemma process_map k n s : InvG (S k) n s -> m_ny s + nerr k = ny0 + k -> n <= k + c_W c * c_P c ->
  (fmain k = true -> In (k, mst k) (m_msnaps s)) ->
  exists s', process_data c s (res k) (wof k) (st_of k) = (expected k, s') /\
             InvG (S k) (nextn n) s' /\ m_ny s' + nerr (S k) = ny0 + S k /\ (Snap s -> Snap s').
Proof.
  intros H Hny Hn Hkin. unfold process_data.
  assert (exists sp, try_put_index c s = sp /\ InvG (S k) (nextn n) sp /\ same_rest s sp /\
                     (forall e, In e (m_msnaps s) -> In e (m_msnaps sp))) as (sp & -> & Hsp & Hsame & Hsub).
  { unfold nextn. destruct (n <? L) eqn:El.
    - apply Nat.ltb_lt in El. destruct (try_put_inv (S k) n s H El ltac:(lia)) as [Ha Hb].
      eexists; split; [reflexivity|]. split; [exact Ha | split; [exact Hb|]].
      intros e He. unfold try_put_index.
      repeat match goal with |- context [match ?x with _ => _ end] => destruct x eqn:? end; proj; try exact He;
        try (unfold fail; repeat match goal with |- context [match ?x with _ => _ end] => destruct x end; proj; try exact He);
        try (apply in_or_app; left; exact He).
    - apply Nat.ltb_ge in El. pose proof (g_kn _ _ _ H) as [_ HnL]. assert (n = L) as -> by lia.
      rewrite (try_put_end (S k) s H ltac:(lia)). eexists; split; [reflexivity|]. split; [exact H|]. split; [repeat split; reflexivity | auto]. }
  destruct Hsame as (S1 & S2 & S3 & S4 & S5 & S6).
  unfold res, expected. destruct (isbad k) eqn:Eb.
  - (* the failing batch: the error is re-raised, nothing else changes *)
    eexists; split; [reflexivity|]. split; [exact Hsp|]. split; [rewrite nerr_S, Eb, S2; lia|].
    unfold Snap. rewrite S2, S4, S5, S6. auto.
  - assert (nerr (S k) = nerr k) as Hne by (rewrite nerr_S, Eb; lia).
    set (wsnap := match st_of k with Some x => set_nth (m_wsnap sp) (wof k) x | None => m_wsnap sp end).
    set (s1 := {| m_send := m_send sp; m_rcvd := m_rcvd sp; m_info := m_info sp; m_outst := m_outst sp; m_status := m_status sp;
                  m_cyc := m_cyc sp; m_ny := m_ny sp; m_siy := m_siy sp; m_samp := m_samp sp; m_msnaps := m_msnaps sp;
                  m_last := wof k; m_wsnap := wsnap; m_snapshot := m_snapshot sp; m_finished := m_finished sp;
                  m_workers := m_workers sp; m_assert := m_assert sp |}).
    assert (InvG (S k) (nextn n) s1) as Hs1 by (apply (inv_frame _ _ sp s1 Hsp); try reflexivity; exact (g_ms _ _ _ Hsp)).
    assert (length (m_wsnap s) = c_W c -> length wsnap = c_W c) as Hwl.
    { intros Hl. unfold wsnap. destruct (st_of k); [rewrite set_nth_length|]; rewrite S4; exact Hl. }
    destruct (negb (c_I c =? 0) && (S (m_ny s1) mod c_I c =? 0)) eqn:Esnap.
    + (* a snapshot boundary: the main snapshot recorded for task k is the one that is popped *)
      apply andb_true_iff in Esnap as [EI Emod]. apply negb_true_iff, Nat.eqb_neq in EI. apply Nat.eqb_eq in Emod.
      assert (fmain k = true) as Hfm.
      { unfold fmain. apply andb_true_iff. split; [apply negb_true_iff, Nat.eqb_neq, EI|]. apply Nat.eqb_eq.
        destruct Hgood as [HI|[Hb Hoff]].
        - assert (c_I c = 1) as -> by lia. apply Nat.mod_1_r.
        - rewrite (nerr_nobad k Hb) in Hny. unfold s1 in Emod. cbn [m_ny] in Emod. rewrite S2 in Emod.
          replace (off + k) with (m_ny s) by lia. exact Emod. }
      assert (In (k, mst k) (m_msnaps s1)) as Hin by (unfold s1; proj; apply Hsub, Hkin, Hfm).
      unfold take_snapshot.
      assert (m_rcvd s1 - 1 = k) as Hr by (unfold s1; proj; rewrite (g_rcvd _ _ _ Hsp); lia).
      rewrite Hr.
      destruct (g_ms _ _ _ Hs1) as (M1 & M2 & M3).
      pose proof (pop_msnaps_spec (m_msnaps s1) 0 k None M1) as Hpop.
      destruct (pop_msnaps (m_msnaps s1) k None) as [p rest]. destruct Hpop as (P1 & P2 & P3 & P4).
      rewrite (P4 _ _ Hin eq_refl). proj. rewrite Nat.eqb_refl. proj.
      unfold s1 at 1. proj. rewrite (g_assert _ _ _ Hsp).
      eexists; split; [reflexivity|]. split; [|split].
      * apply (inv_frame _ _ s1 _ Hs1); try reflexivity. proj. split; [apply msorted_mono with (lo := S k); [lia | exact P1]|]. split.
        -- intros t m Ht. apply P2 in Ht. destruct Ht as [Ht _]. apply M2, Ht.
        -- intros t Ht Hf. apply P2. split; [apply M3; assumption | cbn; lia].
      * proj. unfold s1. proj. rewrite S2. lia.
      * intros (Sa & Sb & Sc & Sd). unfold Snap. proj. cbn [sn_step sn_main sn_workers]. unfold s1. proj.
        split; [apply Hwl, Sb|]. split; [apply Hwl, Sb|]. split; [rewrite S6; exact Sc|].
        intros Hb Hoff. rewrite (nerr_nobad k Hb) in Hny. rewrite S2. unfold mst.
        replace (off + k) with (m_ny s) by lia. split; [reflexivity | lia].
    + (* no snapshot at this step *)
      unfold s1 at 1. proj. rewrite (g_assert _ _ _ Hsp).
      eexists; split; [reflexivity|]. split; [|split].
      * apply (inv_frame _ _ s1 _ Hs1); try reflexivity. exact (g_ms _ _ _ Hs1).
      * proj. unfold s1. proj. rewrite S2. lia.
      * intros (Sa & Sb & Sc & Sd). unfold Snap. unfold s1. proj.
        split; [rewrite S5; exact Sa|]. split; [apply Hwl, Sb|]. split; [rewrite S6; exact Sc|].
        intros Hb Hoff. destruct (Sd Hb Hoff) as [Se Sf]. rewrite S5, S2. split; [exact Se | lia].
Qed.

(* ------------------------------------------------------------------ *)
(* one __next__ under ANY arrival schedule *)
Lemma skip_retired_hit fuel k n s : InvG k n s -> k < n -> skip_retired (S fuel) s = (true, s).
Proof.
  intros H Hkn. cbn [skip_retired]. rewrite (g_rcvd _ _ _ H), (g_send _ _ _ H).
  assert (k <? n = true) as -> by (apply Nat.ltb_lt; exact Hkn).
  pose proof (g_info _ _ _ H k) as G. destruct (info_get (m_info s) k) as [[w r]|]; [|exfalso; apply G; lia].
  destruct G as (_ & -> & _). rewrite (g_status _ _ _ H), nth_repeat_true by (apply wof_lt).
  rewrite orb_true_r. reflexivity.
Qed.

Lemma res_not_stop t : res t <> RStop.
Proof. unfold res. destruct (isbad t); discriminate. Qed.

Lemma next_data_map : forall fuel k n s sched,
  InvG k n s -> k < n -> m_ny s + nerr k = ny0 + k -> n <= k + c_W c * c_P c -> qsum (m_workers s) < fuel ->
  exists s' sched', next_data fuel c s sched = (expected k, s', sched') /\
                    InvG (S k) (nextn n) s' /\ m_ny s' + nerr (S k) = ny0 + S k /\ (Snap s -> Snap s').
Proof.
  induction fuel as [|f IH]; intros k n s sched H Hkn Hny Hn Hfuel; [lia|].
  cbn [next_data]. rewrite (skip_retired_hit _ k n s H Hkn). cbn [negb]. rewrite (g_rcvd _ _ _ H).
  assert (fmain k = true -> In (k, mst k) (m_msnaps s)) as Hkin by (intros Hf; apply (g_ms _ _ _ H); [lia | exact Hf]).
  destruct (info_get (m_info s) k) as [[w [[r st]|]]|] eqn:Ei.
  - (* already fetched *)
    destruct (deliver_buffered k n s w r st H Hkn Ei) as (H1 & N1 & -> & -> & ->).
    rewrite (g_rcvd _ _ _ H) in *.
    set (s1 := upd_core s (S k) (info_del (m_info s) k) (m_wsnap s)) in *.
    destruct (process_map k n s1 H1 ltac:(rewrite N1; exact Hny) Hn Hkin) as (s' & Hp & Hi' & Hn' & Hsn).
    assert (forall X (a b : X), match res k with RStop => a | _ => b end = b) as Hm by (intros; unfold res; destruct (isbad k); reflexivity).
    rewrite Hm, Hp. exists s', sched. split; [reflexivity|]. split; [exact Hi'|]. split; [exact Hn'|]. intros HSnap. apply Hsn. exact HSnap.
  - (* wait for arrivals *)
    assert (m_outst s =? 0 = false) as ->.
    { apply Nat.eqb_neq. pose proof (nans_lt _ _ _ Ei). pose proof (g_cnt _ _ _ H). lia. }
    pose proof (g_info _ _ _ H k) as G. rewrite Ei in G. destruct G as (_ & Hw & _).
    assert (w < c_W c) as Hwlt by (rewrite Hw; apply wof_lt).
    assert (In w (candidates s)) as Hcand.
    { apply in_candidates. rewrite (g_wlen _ _ _ H). split; [exact Hwlt|]. split; [exact (g_dead _ _ _ H w Hwlt)|].
      destruct (g_q _ _ _ H w Hwlt) as (_ & _ & Q3). intros Hq. rewrite Hq in Q3. apply (proj2 (Q3 k)). split; [symmetry; exact Hw | exact Ei]. }
    destruct (candidates s) as [|cand0 cs] eqn:Ec; [contradiction|]. rewrite <- Ec in *.
    set (ch := match sched with [] => 0 | x :: _ => x end).
    set (sched' := match sched with [] => [] | _ :: r => r end).
    set (w' := nth (ch mod length (candidates s)) (candidates s) 0).
    assert (In w' (candidates s)) as Hw'c by (apply nth_mod_in; rewrite Ec; discriminate).
    apply in_candidates in Hw'c. destruct Hw'c as (Hw'lt & _ & Hq'ne). rewrite (g_wlen _ _ _ H) in Hw'lt.
    destruct (wk_q (nth w' (m_workers s) wk_fresh)) as [|tk q'] eqn:Eq; [congruence|].
    destruct (queue_head _ _ _ _ _ _ H Hw'lt Eq) as (Etk & Hr & Hm & Hi & Hs & Hni).
    set (t := t_idx tk) in *. rewrite Etk in Eq.
    rewrite (arrive_map s w' t q' Eq).
    assert (forall X (a b : X), match res t with RStop => a | _ => b end = b) as Hm2 by (intros; unfold res; destruct (isbad t); reflexivity).
    rewrite Hm2. cbn [m_rcvd arr_state].
    rewrite (g_rcvd _ _ _ H).
    destruct (Nat.eqb_spec t k) as [Etk2|Hne]; cbn [negb].
    + (* the awaited result *)
      rewrite Etk2 in *.
      destruct (deliver_direct k n s w' q' H Hw'lt Eq) as (H1 & N1 & _).
      cbn [m_rcvd arr_state] in H1, N1. rewrite (g_rcvd _ _ _ H) in H1, N1.
      match type of H1 with InvG _ _ ?s3 =>
        destruct (process_map k n s3 H1 ltac:(rewrite N1; exact Hny) Hn Hkin) as (s' & Hp & Hi' & Hn' & Hsn)
      end.
      rewrite Hm2. rewrite Hm in Hp. rewrite Hp. exists s', sched'. split; [reflexivity|]. split; [exact Hi'|]. split; [exact Hn'|]. intros HSnap. apply Hsn. exact HSnap.
    + (* out of order: buffered, keep waiting *)
      destruct (buffer_inv k n s w' t q' H Hw'lt Eq Hne) as (Hb & Hq & Nb).
      cbn [m_rcvd m_info m_wsnap arr_state] in Hb, Hq, Nb. rewrite (g_rcvd _ _ _ H) in Hb, Hq, Nb.
      destruct (IH k n _ sched' Hb Hkn ltac:(rewrite Nb; exact Hny) Hn ltac:(lia)) as (s' & sched'' & E & Hi' & Hn' & Hsn).
      exists s', sched''. split; [exact E|]. split; [exact Hi'|]. split; [exact Hn'|]. intros HSnap. apply Hsn. exact HSnap.
  - exfalso. pose proof (g_info _ _ _ H k) as G. rewrite Ei in G. apply G. lia.
Qed.

(* ------------------------------------------------------------------ *)
(* the end of the epoch, the initial state, and the whole epoch *)
Lemma next_data_end f s sched : InvG L L s ->
  exists s', next_data (S f) c s sched = (OStop, s', sched) /\ m_finished s' = true.
Proof.
  intros H. cbn [next_data].
  assert (skip_retired (S (m_send s)) s = (false, s)) as ->.
  { cbn [skip_retired]. rewrite (g_rcvd _ _ _ H), (g_send _ _ _ H), Nat.ltb_irrefl. reflexivity. }
  cbn [negb]. eexists; split; reflexivity.
Qed.

(* any state that looks like the one __init__ builds before it primes the prefetch loop *)
Lemma inv_start s : off <= length (c_batches c) ->
  m_rcvd s = 0 -> m_send s = 0 -> m_siy s = off -> m_samp s = off -> m_cyc s = c0 mod c_W c -> m_info s = [] -> m_outst s = 0 ->
  length (m_workers s) = c_W c -> (forall w, w < c_W c -> wk_q (nth w (m_workers s) wk_fresh) = [] /\ wk_dead (nth w (m_workers s) wk_fresh) = false) ->
  m_status s = repeat true (c_W c) -> m_msnaps s = [] -> m_assert s = None ->
  InvG 0 0 s.
Proof.
  intros Hoff E1 E2 E3 E4 E5 E6 E7 E8 E9 E10 E11 E12.
  constructor; rewrite ?E1, ?E2, ?E3, ?E4, ?E5, ?E6, ?E7, ?E10, ?E11, ?E12; try reflexivity.
  - unfold L. lia.
  - lia.
  - lia.
  - unfold wof. rewrite Nat.add_0_r. reflexivity.
  - constructor.
  - intros t. cbn. lia.
  - exact E8.
  - intros w Hw. destruct (E9 w Hw) as [Eq _]. rewrite Eq. cbn. split; [exact I | split; [intros tk []|]].
    intros t. split; [intros [] | intros [_ Hx]; discriminate].
  - intros w Hw. exact (proj2 (E9 w Hw)).
  - split; [exact I | split; [intros t m [] | intros t Ht; lia]].
Qed.

Lemma iter_put_inv : forall j i s, InvG 0 (Nat.min L i) s -> i + j <= c_W c * c_P c ->
  InvG 0 (Nat.min L (i + j)) (iter_n (try_put_index c) j s) /\ same_rest s (iter_n (try_put_index c) j s).
Proof.
  induction j as [|j IH]; intros i s H Hle; cbn [iter_n].
  - rewrite Nat.add_0_r. split; [exact H | repeat split; reflexivity].
  - destruct (Nat.lt_ge_cases (Nat.min L i) L) as [Hlt|Hge].
    + destruct (try_put_inv 0 (Nat.min L i) s H Hlt ltac:(lia)) as [H1 R1].
      replace (S (Nat.min L i)) with (Nat.min L (S i)) in H1 by lia.
      destruct (IH (S i) _ H1 ltac:(lia)) as [H2 R2]. replace (i + S j) with (S i + j) by lia. split; [exact H2|].
      unfold same_rest in *. intuition congruence.
    + assert (Nat.min L i = L) as E by lia. rewrite E in H. rewrite (try_put_end 0 s H ltac:(lia)).
      replace L with (Nat.min L (S i)) in H by lia.
      destruct (IH (S i) _ H ltac:(lia)) as [H2 R2]. replace (i + S j) with (S i + j) by lia. split; assumption.
Qed.

Lemma fuel_enough s : qsum (m_workers s) < FUEL c s.
Proof. unfold FUEL, qsum. lia. Qed.

(* the consumer-visible outcomes: every __next__ until StopIteration *)
Fixpoint outcomes (n : nat) (s : ms) (sched : list nat) : list outcome :=
  match n with
  | 0 => []
  | S n' => let '(o, s', sched') := sdl_next c s sched in
            match o with OStop => [OStop] | _ => o :: outcomes n' s' sched' end
  end.

Lemma expected_not_stop k : expected k <> OStop.
Proof. unfold expected. destruct (isbad k); discriminate. Qed.

Lemma nextn_min k : nextn (Nat.min L (k + c_W c * c_P c)) = Nat.min L (S k + c_W c * c_P c).
Proof. unfold nextn. destruct (Nat.min L (k + c_W c * c_P c) <? L) eqn:E; [apply Nat.ltb_lt in E | apply Nat.ltb_ge in E]; lia. Qed.

Lemma sdl_next_map k s sched : k < L -> InvG k (Nat.min L (k + c_W c * c_P c)) s -> m_ny s + nerr k = ny0 + k ->
  exists s' sched', sdl_next c s sched = (expected k, s', sched') /\
                    InvG (S k) (Nat.min L (S k + c_W c * c_P c)) s' /\ m_ny s' + nerr (S k) = ny0 + S k /\ (Snap s -> Snap s').
Proof.
  intros Hlt H Hny.
  assert (k < Nat.min L (k + c_W c * c_P c)) as Hkn by (assert (0 < c_W c * c_P c) by nia; lia).
  unfold sdl_next.
  destruct (next_data_map (FUEL c s) k _ s sched H Hkn Hny ltac:(lia) (fuel_enough s)) as (s' & sched' & E & H' & Hny' & Hsn).
  rewrite nextn_min in H'. eauto 6.
Qed.

Lemma outcomes_from : forall d k s sched,
  d = L - k -> k <= L -> InvG k (Nat.min L (k + c_W c * c_P c)) s -> m_ny s + nerr k = ny0 + k ->
  outcomes (S d) s sched = map expected (seq k d) ++ [OStop].
Proof.
  induction d as [|d IH]; intros k s sched Hd HkL H Hny.
  - assert (k = L) as -> by lia. replace (Nat.min L (L + c_W c * c_P c)) with L in H by lia.
    cbn [outcomes seq map app]. unfold sdl_next.
    assert (exists f, FUEL c s = S f) as [f ->] by (unfold FUEL; eexists; cbn; reflexivity).
    destruct (next_data_end f s sched H) as (s' & -> & _). reflexivity.
  - cbn [outcomes].
    destruct (sdl_next_map k s sched ltac:(lia) H Hny) as (s' & sched' & -> & H' & Hny' & _).
    assert (forall (o : outcome) (rest : list outcome), o <> OStop -> match o with OStop => [OStop] | _ => o :: rest end = o :: rest) as Hmatch
        by (intros o rest Ho; destruct o; congruence).
    rewrite (Hmatch _ _ (expected_not_stop k)). cbn [seq map app]. f_equal.
    apply (IH (S k)); [lia | lia | exact H' | exact Hny'].
Qed.

(* k further __next__ calls whose results are dropped: the replay loop of __init__ (and, read as a prefix of an epoch, any
   k consecutive batches) *)
Lemma replay_map : forall j k s sched,
  k + j <= L -> InvG k (Nat.min L (k + c_W c * c_P c)) s -> m_ny s + nerr k = ny0 + k ->
  exists s' sched', replay c j s sched = (s', sched') /\
                    InvG (k + j) (Nat.min L (k + j + c_W c * c_P c)) s' /\ m_ny s' + nerr (k + j) = ny0 + (k + j) /\ (Snap s -> Snap s').
Proof.
  induction j as [|j IH]; intros k s sched Hle H Hny; cbn [replay].
  - rewrite Nat.add_0_r. exists s, sched. auto.
  - destruct (sdl_next_map k s sched ltac:(lia) H Hny) as (s1 & sched1 & -> & H1 & Hny1 & Hs1).
    destruct (IH (S k) s1 sched1 ltac:(lia) H1 Hny1) as (s' & sched' & E & H' & Hny' & Hs').
    replace (S k + j) with (k + S j) in * by lia. exists s', sched'. split; [exact E|]. split; [exact H'|]. split; [exact Hny'|]. intros HS. apply Hs', Hs1, HS.
Qed.

End MapStyle.

(* ------------------------------------------------------------------------------------------------------------ *)
(* Top-level statements *)
Section Top.
Variable c : cfg.
Hypothesis Hkind : c_kind c = KMap.
Hypothesis HW : 0 < c_W c.
Hypothesis HP : 0 < c_P c.

Definition LL := length (c_batches c).
Definition badb (t : nat) : bool := existsb (fun i => existsb (Nat.eqb i) (c_bad c)) (nth t (c_batches c) []).
(* what the user must see for batch number t *)
Definition want (t : nat) : outcome := if badb t then OErr else OBatch (nth t (c_batches c) []).

Lemma expected_want off k : expected c off k = want (off + k).
Proof. reflexivity. Qed.

Hypothesis Hgood0 : c_I c <= 1 \/ c_bad c = [].

Lemma good_at (b : nat) : c_I c <= 1 \/ c_bad c = [] /\ b = b.
Proof. destruct Hgood0; [left | right]; auto. Qed.

Lemma nth_repeat_fresh w : nth w (repeat wk_fresh (c_W c)) wk_fresh = wk_fresh.
Proof. generalize (c_W c). intros m. revert w. induction m as [|m IH]; intros [|w]; cbn; auto. Qed.

Lemma fresh_good :
  InvG c 0 0 0 (Nat.min (L c 0) (0 + c_W c * c_P c)) (sdl_fresh c) /\ m_ny (sdl_fresh c) = 0 /\ Snap c 0 0 (sdl_fresh c).
Proof.
  unfold sdl_fresh.
  set (s0 := ms0 c (repeat wk_fresh (c_W c)) (repeat (0, false) (c_W c))).
  assert (InvG c 0 0 0 (Nat.min (L c 0) 0) s0) as H0.
  { rewrite Nat.min_0_r. apply (inv_start c HW HP 0 0 0 (good_at 0)); unfold s0, ms0; proj; try reflexivity; try lia.
    - symmetry. apply Nat.mod_0_l. lia.
    - apply repeat_length.
    - intros w Hw. rewrite nth_repeat_fresh. split; reflexivity. }
  destruct (iter_put_inv c Hkind HW HP 0 0 0 (good_at 0) (c_P c * c_W c) 0 s0 H0 ltac:(lia)) as [H1 (R1 & R2 & R3 & R4 & R5 & R6)].
  rewrite (Nat.mul_comm (c_P c)) in *. split; [exact H1|]. split; [rewrite R2; reflexivity|].
  unfold Snap. rewrite R2, R4, R5, R6. unfold s0, ms0. proj. cbn [sn_workers sn_step sn_main].
  rewrite repeat_length. repeat split; auto.
Qed.

(* C03 / C05 / C10, map-style: for EVERY arrival schedule one epoch of the multi-process iterator delivers exactly the
   sampler's batches, each once, in sampler order, with an error outcome at exactly the batches that contain a failing
   index, then StopIteration; no internal assertion fires (the hypothesis Hgood0 excludes known finding D9) *)
Theorem map_epoch_exact : forall sched,
  outcomes c (S LL) (sdl_fresh c) sched = map want (seq 0 LL) ++ [OStop].
Proof.
  intros sched. destruct fresh_good as (H & N & _).
  assert (L c 0 = LL) as EL by (unfold L, LL; lia).
  pose proof (outcomes_from c Hkind HW HP 0 0 0 (good_at 0) LL 0 (sdl_fresh c) sched ltac:(lia) ltac:(lia) H ltac:(rewrite N; reflexivity)) as E.
  exact E.
Qed.

End Top.

(* ------------------------------------------------------------------------------------------------------------ *)
(* C01, map-style: a checkpoint at ANY batch resumes the exact remaining stream, under EVERY pair of arrival schedules,
   and the resumed iterator is again a good state — so any chain of checkpoint/resume is exact too. *)
Section Resume.
Variable c : cfg.
Hypothesis Hkind : c_kind c = KMap.
Hypothesis HW : 0 < c_W c.
Hypothesis HP : 0 < c_P c.
Hypothesis Hnobad : c_bad c = [].

Lemma good_nb (b : nat) : c_I c <= 1 \/ c_bad c = [] /\ b = b.
Proof. right. auto. Qed.

Lemma nerr0 off k : nerr c off k = 0.
Proof. apply nerr_nobad. exact Hnobad. Qed.

(* "the iterator has been started at batch number off and has handed out k batches since" *)
Definition Good (off c0 k : nat) (s : ms) : Prop :=
  off <= LL c /\ k <= L c off /\ InvG c off c0 k (Nat.min (L c off) (k + c_W c * c_P c)) s /\
  m_ny s = off + k /\ Snap c off off s.

Lemma want_nobad t : want c t = OBatch (nth t (c_batches c) []).
Proof. unfold want, badb. rewrite Hnobad, existsb_bad_nil. reflexivity. Qed.

Lemma map_expected_shift off k d : map (expected c off) (seq k d) = map (want c) (seq (off + k) d).
Proof.
  revert k. induction d as [|d IH]; intros k; cbn [seq map]; [reflexivity|].
  rewrite expected_want, IH. replace (off + S k) with (S (off + k)) by lia. reflexivity.
Qed.

(* from a good state, the rest of the epoch is exactly the remaining batches, for every schedule *)
Theorem good_continuation off c0 k s sched : Good off c0 k s ->
  outcomes c (S (LL c - (off + k))) s sched = map (want c) (seq (off + k) (LL c - (off + k))) ++ [OStop].
Proof.
  intros (Ho & Hk & H & Hny & _).
  assert (LL c - (off + k) = L c off - k) as -> by (unfold L, LL in *; lia).
  rewrite <- map_expected_shift.
  apply (outcomes_from c Hkind HW HP off c0 off (good_nb off)); auto. rewrite nerr0. lia.
Qed.

Lemma good_replay off c0 k j s sched : Good off c0 k s -> k + j <= L c off ->
  exists s' sched', replay c j s sched = (s', sched') /\ Good off c0 (k + j) s'.
Proof.
  intros (Ho & Hk & H & Hny & HS) Hle.
  destruct (replay_map c Hkind HW HP off c0 off (good_nb off) j k s sched Hle H ltac:(rewrite nerr0; lia))
    as (s' & sched' & E & H' & Hny' & HS').
  exists s', sched'. split; [exact E|]. rewrite nerr0 in Hny'. unfold Good. split; [exact Ho|]. split; [lia|]. split; [exact H'|]. split; [lia | apply HS', HS].
Qed.

Lemma nth_map_restored (f : wsave -> wk) (l : list wsave) w :
  (forall sv, wk_q (f sv) = [] /\ wk_dead (f sv) = false) ->
  wk_q (nth w (map f l) wk_fresh) = [] /\ wk_dead (nth w (map f l) wk_fresh) = false.
Proof.
  intros Hf. revert w. induction l as [|a l IH]; intros [|w]; cbn; auto.
Qed.

(* state_dict() of a good state, loaded into a new iterator under ANY schedule, gives a good state at the same position *)
Theorem resume_good off c0 k s sched : Good off c0 k s ->
  exists sr sched' B c0', sdl_resume c (state_dict s) sched = (sr, sched') /\
                          Good B c0' (off + k - B) sr /\ off <= B <= off + k.
Proof.
  intros (Ho & Hk & H & Hny & (S1 & S2 & S3 & S4)).
  destruct (S4 Hnobad eq_refl) as (Sm & Sb1 & Sb2).
  set (sn := m_snapshot s) in *. set (B := sn_step sn) in *.
  assert (B <= LL c) as HB by (unfold L, LL in *; lia).
  unfold sdl_resume. rewrite Hkind. cbn [state_dict sd_snapshot sd_steps sd_finished]. fold sn. fold B.
  set (workers := map (fun sv : wsave => wk_restored (fst sv, if c_stateful c then snd sv else false)) (sn_workers sn)).
  match goal with |- context [iter_n (try_put_index c) _ ?x] => set (s2 := x) end.
  assert (InvG c B (S (sn_last sn)) 0 (Nat.min (L c B) 0) s2) as H2.
  { rewrite Nat.min_0_r. apply (inv_start c HW HP B (S (sn_last sn)) B (good_nb B)); unfold s2, ms0; proj; try reflexivity.
    - exact HB.
    - rewrite Sm. reflexivity.
    - rewrite Sm. reflexivity.
    - unfold workers. rewrite map_length. exact S1.
    - intros w Hw. unfold workers. apply nth_map_restored. intros sv. split; reflexivity. }
  destruct (iter_put_inv c Hkind HW HP B (S (sn_last sn)) B (good_nb B) (c_P c * c_W c) 0 s2 H2 ltac:(lia))
    as [H3 (R1 & R2 & R3 & R4 & R5 & R6)].
  cbn [Nat.add] in H3. rewrite (Nat.mul_comm (c_P c)) in *.
  set (s3 := iter_n (try_put_index c) (c_W c * c_P c) s2) in *.
  assert (Good B (S (sn_last sn)) 0 s3) as G3.
  { split; [exact HB|]. split; [lia|]. split; [exact H3|]. split; [rewrite R2; unfold s2; proj; fold B; lia|].
    unfold Snap. rewrite R2, R4, R5, R6. unfold s2. proj. fold sn. fold B. repeat split; auto. }
  assert (m_ny s - B <= L c B) as Hsteps by (unfold L, LL in *; lia).
  destruct (good_replay B (S (sn_last sn)) 0 (m_ny s - B) s3 sched G3 ltac:(lia)) as (s4 & sched2 & E4 & (G4a & G4b & G4c & G4d & G4e)).
  rewrite E4. cbn [Nat.add] in *.
  eexists _, sched2, B, (S (sn_last sn)). split; [reflexivity|]. split; [|lia].
  replace (off + k - B) with (m_ny s - B) by lia.
  split; [exact G4a|]. split; [exact G4b|]. split.
  - apply (inv_frame c B (S (sn_last sn)) _ _ s4 _ G4c); reflexivity || exact (g_ms _ _ _ _ _ _ G4c).
  - split; [proj; exact G4d|]. destruct G4e as (T1 & T2 & T3 & T4). unfold Snap. proj.
    split; [exact T1|]. split; [exact T2|]. split; [exact S3|]. exact T4.
Qed.

(* the headline: interrupt a fresh epoch after k batches under schedule sched1, take state_dict(), load it into a new
   iterator under schedule sched2: what follows is exactly batches k, k+1, ... and then StopIteration *)
Theorem map_resume_exact k sched1 sched2 : k <= LL c ->
  let '(sk, _) := replay c k (sdl_fresh c) sched1 in
  let '(sr, sched') := sdl_resume c (state_dict sk) sched2 in
  outcomes c (S (LL c - k)) sr sched' = map (want c) (seq k (LL c - k)) ++ [OStop].
Proof.
  intros Hk.
  destruct (fresh_good c Hkind HW HP (or_intror Hnobad)) as (H0 & N0 & S0).
  assert (Good 0 0 0 (sdl_fresh c)) as G0 by (unfold Good; split; [lia|]; split; [lia|]; split; [exact H0|]; split; [lia | exact S0]).
  destruct (good_replay 0 0 0 k _ sched1 G0 ltac:(unfold L, LL in *; lia)) as (sk & sc1 & -> & Gk).
  destruct (resume_good 0 0 k sk sched2 Gk) as (sr & sched' & B & c0' & -> & Gr & HB).
  pose proof (good_continuation B c0' (0 + k - B) sr sched' Gr) as E.
  replace (B + (0 + k - B)) with k in E by lia. exact E.
Qed.

(* chains: k1 batches, checkpoint + resume, k2 batches, checkpoint + resume, ... : still exact *)
Fixpoint chain (ks : list nat) (s : ms) (sched : list nat) : ms * list nat :=
  match ks with
  | [] => (s, sched)
  | j :: r => let '(s1, sc1) := replay c j s sched in
              let '(s2, sc2) := sdl_resume c (state_dict s1) sc1 in
              chain r s2 sc2
  end.

Lemma chain_good : forall ks off c0 k s sched, Good off c0 k s -> off + k + fold_right Nat.add 0 ks <= LL c ->
  exists off' c0' k' s' sched', chain ks s sched = (s', sched') /\ Good off' c0' k' s' /\ off' + k' = off + k + fold_right Nat.add 0 ks.
Proof.
  induction ks as [|j r IH]; intros off c0 k s sched G Hle; cbn [chain fold_right] in *.
  - exists off, c0, k, s, sched. split; [reflexivity|]. split; [exact G | lia].
  - destruct G as (Ho & Hk & Hrest).
    destruct (good_replay off c0 k j s sched (conj Ho (conj Hk Hrest)) ltac:(unfold L, LL in *; lia)) as (s1 & sc1 & -> & G1).
    destruct (resume_good off c0 (k + j) s1 sc1 G1) as (s2 & sc2 & B & c0' & -> & G2 & HB).
    destruct (IH B c0' (off + (k + j) - B) s2 sc2 G2 ltac:(lia)) as (off' & c0'' & k' & s' & sched' & E & G' & Hpos).
    exists off', c0'', k', s', sched'. split; [exact E|]. split; [exact G'|]. lia.
Qed.

Theorem map_resume_chain ks sched : fold_right Nat.add 0 ks <= LL c ->
  let '(s, sched') := chain ks (sdl_fresh c) sched in
  let p := fold_right Nat.add 0 ks in
  outcomes c (S (LL c - p)) s sched' = map (want c) (seq p (LL c - p)) ++ [OStop].
Proof.
  intros Hle.
  destruct (fresh_good c Hkind HW HP (or_intror Hnobad)) as (H0 & N0 & S0).
  assert (Good 0 0 0 (sdl_fresh c)) as G0 by (unfold Good; split; [lia|]; split; [lia|]; split; [exact H0|]; split; [lia | exact S0]).
  destruct (chain_good ks 0 0 0 _ sched G0 ltac:(lia)) as (off' & c0' & k' & s' & sched' & -> & G' & Hpos).
  cbn zeta. pose proof (good_continuation off' c0' k' s' sched' G') as E.
  rewrite Hpos in E. exact E.
Qed.

End Resume.
