(* SdlModel.v — executable model of the multi-process StatefulDataLoader iterator
   (_StatefulMultiProcessingDataLoaderIter in stateful_dataloader.py + _worker_loop in worker.py),
   after the fixes e648474 (D1), 578074d (D8), d5f1ce3 (D16).
   - worker machines: position / ended / iteration_end, evaluated lazily when "a result of worker w
     arrives"; a SCHEDULE is the list of such choices (every arrival order consistent with
     per-worker FIFO is a schedule);
   - main machine: one field per Python attribute, one function per method
     (_try_put_index, _next_data, _process_data, _take_snapshot, state_dict, __init__ with
     next_iter_state incl. the fast-forward path).
   Data are lists of naturals (items/indices).  No proofs here. *)
From PD Require Import Base.
Open Scope string_scope. Open Scope list_scope. Open Scope nat_scope.

Inductive dkind := KMap | KIter.

Record cfg := {
  c_kind : dkind;
  c_W : nat;                      (* num_workers > 0 *)
  c_P : nat;                      (* prefetch_factor *)
  c_I : nat;                      (* snapshot_every_n_steps (0 = never) *)
  c_bs : nat;                     (* iterable: batch_size; 0 = batch_size None *)
  c_drop : bool;
  c_shards : list (list nat);     (* iterable: the items each worker's replica yields *)
  c_batches : list (list nat);    (* map-style: index batches of this epoch (batch sampler output) *)
  c_bad : list nat;               (* map-style: indices whose __getitem__ raises *)
  c_stateful : bool;              (* the dataset restores a position (else resume = fast-forward) *)
  c_rewind : bool }.              (* iterable dataset rewinds its position when it runs out (README style) *)

(* ---------------------------------------------------------------- *)
(* workers                                                           *)
Definition wsave := (nat * bool)%type.            (* (dataset position, fetcher.ended) *)
Inductive result := RData (b : list nat) | RStop | RErr.
Record task := { t_idx : nat; t_index : list nat; t_snap : bool }.

Record wk := {
  wk_pos : nat;
  wk_ended : bool;
  wk_dead : bool;                 (* iteration_end: every further task is skipped *)
  wk_q : list task }.             (* index queue: tasks sent and not yet looked at *)

Definition wk_fresh : wk := {| wk_pos := 0; wk_ended := false; wk_dead := false; wk_q := [] |}.
Definition wk_restored (s : wsave) : wk := {| wk_pos := fst s; wk_ended := snd s; wk_dead := false; wk_q := [] |}.

Definition shard (c : cfg) (w : nat) : list nat := nth w (c_shards c) [].

(* one iteration of _worker_loop on a data task: (result, state delta sent with it, new worker) *)
Definition worker_fetch (c : cfg) (w : nat) (k : wk) (t : task) : result * option wsave * wk :=
  match c_kind c with
  | KMap =>
      let r := if existsb (fun i => existsb (Nat.eqb i) (c_bad c)) (t_index t) then RErr else RData (t_index t) in
      (r, if t_snap t then Some (0, false) else None, k)
  | KIter =>
      let sh := shard c w in
      let '(r, pos', ended') :=
        if wk_ended k then (RStop, wk_pos k, true)
        else if c_bs c =? 0 then
          match nth_error sh (wk_pos k) with
          | Some x => (RData [x], S (wk_pos k), false)
          | None => (RStop, (if c_rewind c then 0 else wk_pos k), true)       (* d5f1ce3: ended recorded *)
          end
        else
          let items := firstn (c_bs c) (skipn (wk_pos k) sh) in
          let short := length items <? c_bs c in
          let pos1 := wk_pos k + length items in
          let pos2 := if short && c_rewind c then 0 else pos1 in
          if (length items =? 0) || (c_drop c && short) then (RStop, pos2, short)
          else (RData items, pos2, short) in
      let dead' := match r with RStop => true | _ => false end in
      let st := if t_snap t || dead' then Some (pos', ended') else None in
      (r, st, {| wk_pos := pos'; wk_ended := ended'; wk_dead := dead'; wk_q := wk_q k |})
  end.

(* ---------------------------------------------------------------- *)
(* main process                                                      *)
Definition mainstate := (nat * nat)%type.         (* (_sampler_iter_yielded, sampler position) *)
Record snapshot := {
  sn_step : nat; sn_last : nat; sn_main : mainstate; sn_workers : list wsave }.

Record ms := {
  m_send : nat; m_rcvd : nat;
  m_info : list (nat * (nat * option (result * option wsave)));   (* _task_info *)
  m_outst : nat;
  m_status : list bool;
  m_cyc : nat;                                 (* next value of _worker_queue_idx_cycle *)
  m_ny : nat;                                  (* _num_yielded *)
  m_siy : nat; m_samp : nat;
  m_msnaps : list (nat * mainstate);           (* _main_snapshots *)
  m_last : nat;
  m_wsnap : list wsave;                        (* _worker_snapshots (accumulated) *)
  m_snapshot : snapshot;
  m_finished : bool;
  m_workers : list wk;
  m_assert : option string }.                  (* first failed assertion, sticky *)

Definition set_nth {A} (l : list A) (i : nat) (x : A) : list A :=
  firstn i l ++ match skipn i l with [] => [] | _ :: r => x :: r end.

Fixpoint info_get {A} (l : list (nat * A)) (k : nat) : option A :=
  match l with [] => None | (k', v) :: r => if k' =? k then Some v else info_get r k end.
Fixpoint info_del {A} (l : list (nat * A)) (k : nat) : list (nat * A) :=
  match l with [] => [] | (k', v) :: r => if k' =? k then r else (k', v) :: info_del r k end.
Definition info_set {A} (l : list (nat * A)) (k : nat) (v : A) : list (nat * A) := info_del l k ++ [(k, v)].

Definition fail (s : ms) (msg : string) : ms :=
  match m_assert s with
  | Some _ => s
  | None => {| m_send := m_send s; m_rcvd := m_rcvd s; m_info := m_info s; m_outst := m_outst s; m_status := m_status s;
               m_cyc := m_cyc s; m_ny := m_ny s; m_siy := m_siy s; m_samp := m_samp s; m_msnaps := m_msnaps s;
               m_last := m_last s; m_wsnap := m_wsnap s; m_snapshot := m_snapshot s; m_finished := m_finished s;
               m_workers := m_workers s; m_assert := Some msg |}
  end.

(* find the next active worker: at most W advances of the cycle *)
Fixpoint find_worker (todo : nat) (W : nat) (status : list bool) (cyc : nat) : option nat * nat :=
  match todo with
  | 0 => (None, cyc)
  | S t => let w := cyc in
           let cyc' := (S cyc) mod W in
           if nth w status false then (Some w, cyc') else find_worker t W status cyc'
  end.

(* _try_put_index *)
Definition try_put_index (c : cfg) (s : ms) : ms :=
  let s := if m_outst s <? c_P c * c_W c then s else fail s "assert tasks_outstanding < max_tasks" in
  let nxt : option (list nat * nat) :=          (* _next_index(): (index batch, new sampler position) *)
    match c_kind c with
    | KIter => Some ([], m_samp s)
    | KMap => match nth_error (c_batches c) (m_samp s) with Some b => Some (b, S (m_samp s)) | None => None end
    end in
  match nxt with
  | None => s                                    (* StopIteration from the sampler *)
  | Some (index, samp') =>
      let siy := S (m_siy s) in
      let I := c_I c in
      let '(snap_main, snap) :=
        if I =? 0 then (false, false)
        else match c_kind c with
             | KIter => let x := m_ny s mod I in
                        let hi := x + 1 + c_W c * c_P c in
                        (I <=? hi, I <=? hi + c_W c)
             | KMap => (siy mod I =? 0, I <=? ((siy - 1) mod I) + c_W c)
             end in
      let '(wo, cyc') := find_worker (c_W c) (c_W c) (m_status s) (m_cyc s) in
      match wo with
      | None => {| m_send := m_send s; m_rcvd := m_rcvd s; m_info := m_info s; m_outst := m_outst s; m_status := m_status s;
                   m_cyc := cyc'; m_ny := m_ny s; m_siy := siy; m_samp := samp'; m_msnaps := m_msnaps s;
                   m_last := m_last s; m_wsnap := m_wsnap s; m_snapshot := m_snapshot s; m_finished := m_finished s;
                   m_workers := m_workers s; m_assert := m_assert s |}
      | Some w =>
          let s := if snap_main && negb snap then fail s "assert snapshot" else s in
          let t := {| t_idx := m_send s; t_index := index; t_snap := snap |} in
          let k := nth w (m_workers s) wk_fresh in
          let k' := {| wk_pos := wk_pos k; wk_ended := wk_ended k; wk_dead := wk_dead k; wk_q := wk_q k ++ [t] |} in
          {| m_send := S (m_send s); m_rcvd := m_rcvd s; m_info := m_info s ++ [(m_send s, (w, None))];
             m_outst := S (m_outst s); m_status := m_status s; m_cyc := cyc'; m_ny := m_ny s; m_siy := siy; m_samp := samp';
             m_msnaps := if snap_main then m_msnaps s ++ [(m_send s, (siy, samp'))] else m_msnaps s;
             m_last := m_last s; m_wsnap := m_wsnap s; m_snapshot := m_snapshot s; m_finished := m_finished s;
             m_workers := set_nth (m_workers s) w k'; m_assert := m_assert s |}
      end
  end.

Fixpoint iter_n {A} (f : A -> A) (n : nat) (x : A) : A := match n with 0 => x | S n' => iter_n f n' (f x) end.

Inductive outcome := OBatch (b : list nat) | OStop | OErr | OAssert (msg : string) | ODeadlock | OFuel.

(* _take_snapshot *)
Fixpoint pop_msnaps (l : list (nat * mainstate)) (upto : nat) (lastp : option (nat * mainstate))
  : option (nat * mainstate) * list (nat * mainstate) :=
  match l with
  | (i, m) :: r => if i <=? upto then pop_msnaps r upto (Some (i, m)) else (lastp, l)
  | [] => (lastp, [])
  end.

Definition take_snapshot (c : cfg) (s : ms) : ms :=
  let '(p, rest) := pop_msnaps (m_msnaps s) (m_rcvd s - 1) None in
  let s1 := {| m_send := m_send s; m_rcvd := m_rcvd s; m_info := m_info s; m_outst := m_outst s; m_status := m_status s;
               m_cyc := m_cyc s; m_ny := m_ny s; m_siy := m_siy s; m_samp := m_samp s; m_msnaps := rest;
               m_last := m_last s; m_wsnap := m_wsnap s; m_snapshot := m_snapshot s; m_finished := m_finished s;
               m_workers := m_workers s; m_assert := m_assert s |} in
  match p with
  | Some (i, m) =>
      if i =? m_rcvd s - 1 then
        {| m_send := m_send s1; m_rcvd := m_rcvd s1; m_info := m_info s1; m_outst := m_outst s1; m_status := m_status s1;
           m_cyc := m_cyc s1; m_ny := m_ny s1; m_siy := m_siy s1; m_samp := m_samp s1; m_msnaps := rest;
           m_last := m_last s1; m_wsnap := m_wsnap s1;
           m_snapshot := {| sn_step := S (m_ny s1); sn_last := m_last s1; sn_main := m; sn_workers := m_wsnap s1 |};
           m_finished := m_finished s1; m_workers := m_workers s1; m_assert := m_assert s1 |}
      else fail s1 "assert main_snapshot_idx == rcvd_idx - 1"
  | None => fail s1 "assert main_snapshot_idx == rcvd_idx - 1"
  end.

(* _process_data *)
Definition process_data (c : cfg) (s : ms) (r : result) (w : nat) (st : option wsave) : outcome * ms :=
  let s := try_put_index c s in
  match r with
  | RErr => (OErr, s)                                                  (* reraise: nothing else changes *)
  | RStop => (OAssert "process_data on StopIteration", s)
  | RData b =>
      let wsnap := match st with Some x => set_nth (m_wsnap s) w x | None => m_wsnap s end in
      let s1 := {| m_send := m_send s; m_rcvd := m_rcvd s; m_info := m_info s; m_outst := m_outst s; m_status := m_status s;
                   m_cyc := m_cyc s; m_ny := m_ny s; m_siy := m_siy s; m_samp := m_samp s; m_msnaps := m_msnaps s;
                   m_last := w; m_wsnap := wsnap; m_snapshot := m_snapshot s; m_finished := m_finished s;
                   m_workers := m_workers s; m_assert := m_assert s |} in
      let s2 := if negb (c_I c =? 0) && (S (m_ny s1) mod c_I c =? 0) then take_snapshot c s1 else s1 in
      match m_assert s2 with
      | Some msg => (OAssert msg, s2)            (* AssertionError propagates before _num_yielded += 1 *)
      | None =>
          (OBatch b, {| m_send := m_send s2; m_rcvd := m_rcvd s2; m_info := m_info s2; m_outst := m_outst s2;
                        m_status := m_status s2; m_cyc := m_cyc s2; m_ny := S (m_ny s2); m_siy := m_siy s2; m_samp := m_samp s2;
                        m_msnaps := m_msnaps s2; m_last := m_last s2; m_wsnap := m_wsnap s2; m_snapshot := m_snapshot s2;
                        m_finished := m_finished s2; m_workers := m_workers s2; m_assert := m_assert s2 |})
      end
  end.

Definition upd_core (s : ms) (rcvd : nat) (info : list (nat * (nat * option (result * option wsave)))) (wsnap : list wsave) : ms :=
  {| m_send := m_send s; m_rcvd := rcvd; m_info := info; m_outst := m_outst s; m_status := m_status s; m_cyc := m_cyc s;
     m_ny := m_ny s; m_siy := m_siy s; m_samp := m_samp s; m_msnaps := m_msnaps s; m_last := m_last s; m_wsnap := wsnap;
     m_snapshot := m_snapshot s; m_finished := m_finished s; m_workers := m_workers s; m_assert := m_assert s |}.

(* the inner "while self._rcvd_idx < self._send_idx" loop: skip tasks of retired workers *)
Fixpoint skip_retired (fuel : nat) (s : ms) : bool * ms :=      (* true = a valid rcvd_idx was found *)
  match fuel with
  | 0 => (false, s)
  | S f =>
      if m_rcvd s <? m_send s then
        match info_get (m_info s) (m_rcvd s) with
        | Some (w, r) =>
            if (match r with Some _ => true | None => false end) || nth w (m_status s) false then (true, s)
            else skip_retired f (upd_core s (S (m_rcvd s)) (info_del (m_info s) (m_rcvd s)) (m_wsnap s))
        | None => skip_retired f (upd_core s (S (m_rcvd s)) (m_info s) (m_wsnap s))
        end
      else (false, s)
  end.

(* workers whose next result can arrive now *)
Definition candidates (s : ms) : list nat :=
  filter (fun w => let k := nth w (m_workers s) wk_fresh in negb (wk_dead k) && match wk_q k with [] => false | _ => true end)
         (seq 0 (length (m_workers s))).

(* the result of worker w's oldest task arrives at the main process (one _get_data()) *)
Definition arrive (c : cfg) (s : ms) (w : nat) : (nat * result * option wsave) * ms :=
  let k := nth w (m_workers s) wk_fresh in
  match wk_q k with
  | [] => ((0, RErr, None), fail s "arrival from an idle worker")
  | t :: q =>
      let '(r, st, k') := worker_fetch c w {| wk_pos := wk_pos k; wk_ended := wk_ended k; wk_dead := wk_dead k; wk_q := q |} t in
      let s1 := {| m_send := m_send s; m_rcvd := m_rcvd s; m_info := m_info s; m_outst := m_outst s - 1; m_status := m_status s;
                   m_cyc := m_cyc s; m_ny := m_ny s; m_siy := m_siy s; m_samp := m_samp s; m_msnaps := m_msnaps s;
                   m_last := m_last s; m_wsnap := m_wsnap s; m_snapshot := m_snapshot s; m_finished := m_finished s;
                   m_workers := set_nth (m_workers s) w k'; m_assert := m_assert s |} in
      ((t_idx t, r, st), s1)
  end.

(* _next_data under a schedule; returns the outcome, the new state and the unused schedule *)
Fixpoint next_data (fuel : nat) (c : cfg) (s : ms) (sched : list nat) : outcome * ms * list nat :=
  match fuel with
  | 0 => (OFuel, s, sched)
  | S f =>
      let '(found, s) := skip_retired (S (m_send s)) s in
      if negb found then
        (* StopIteration; non-persistent workers are shut down: every worker is marked unavailable *)
        (OStop, {| m_send := m_send s; m_rcvd := m_rcvd s; m_info := m_info s; m_outst := m_outst s;
                   m_status := map (fun _ => false) (m_status s);
                   m_cyc := m_cyc s; m_ny := m_ny s; m_siy := m_siy s; m_samp := m_samp s; m_msnaps := m_msnaps s;
                   m_last := m_last s; m_wsnap := m_wsnap s; m_snapshot := m_snapshot s; m_finished := true;
                   m_workers := m_workers s; m_assert := m_assert s |}, sched)
      else
        match info_get (m_info s) (m_rcvd s) with
        | Some (w, Some (r, st)) =>                                       (* already fetched (out of order earlier) *)
            let s1 := upd_core s (S (m_rcvd s)) (info_del (m_info s) (m_rcvd s)) (m_wsnap s) in
            match r with
            | RStop => next_data f c (upd_core s1 (m_rcvd s1) (m_info s1)
                                        (match st with Some x => set_nth (m_wsnap s1) w x | None => m_wsnap s1 end)) sched
            | _ => let '(o, s2) := process_data c s1 r w st in (o, s2, sched)
            end
        | _ =>
            if m_outst s =? 0 then (OAssert "assert tasks_outstanding > 0", s, sched) else
            match candidates s with
            | [] => (ODeadlock, s, sched)                                  (* main would wait forever *)
            | cands =>
                let ch := match sched with [] => 0 | x :: _ => x end in
                let sched' := match sched with [] => [] | _ :: r => r end in
                let w := nth (ch mod length cands) cands 0 in
                let '((idx, r, st), s1) := arrive c s w in
                (* _IterableDatasetStopIteration is acted on at ARRIVAL: retire the worker, put one more task *)
                let s2 := match r with
                          | RStop =>
                              let s' := {| m_send := m_send s1; m_rcvd := m_rcvd s1; m_info := m_info s1; m_outst := m_outst s1;
                                           m_status := set_nth (m_status s1) w false; m_cyc := m_cyc s1; m_ny := m_ny s1;
                                           m_siy := m_siy s1; m_samp := m_samp s1; m_msnaps := m_msnaps s1; m_last := m_last s1;
                                           m_wsnap := m_wsnap s1; m_snapshot := m_snapshot s1; m_finished := m_finished s1;
                                           m_workers := m_workers s1; m_assert := m_assert s1 |} in
                              try_put_index c s'
                          | _ => s1
                          end in
                if negb (idx =? m_rcvd s2) then
                  next_data f c (upd_core s2 (m_rcvd s2) (info_set (m_info s2) idx (w, Some (r, st))) (m_wsnap s2)) sched'
                else
                  let s3 := upd_core s2 (S (m_rcvd s2)) (info_del (m_info s2) idx) (m_wsnap s2) in
                  match r with
                  | RStop => next_data f c (upd_core s3 (m_rcvd s3) (m_info s3)
                                              (match st with Some x => set_nth (m_wsnap s3) w x | None => m_wsnap s3 end)) sched'
                  | _ => let '(o, s4) := process_data c s3 r w st in (o, s4, sched')
                  end
            end
        end
  end.

Definition FUEL (c : cfg) (s : ms) : nat := S (S (m_send s + c_W c * c_P c + fold_right (fun k n => length (wk_q k) + n) 0 (m_workers s))) * 2.

(* __next__ : sets _finished on StopIteration (done inside next_data) *)
Definition sdl_next (c : cfg) (s : ms) (sched : list nat) : outcome * ms * list nat :=
  next_data (FUEL c s) c s sched.

(* state_dict(): (snapshot, steps_since_snapshot, finished) *)
Record sdict := { sd_snapshot : snapshot; sd_steps : nat; sd_finished : bool }.
Definition state_dict (s : ms) : sdict :=
  {| sd_snapshot := m_snapshot s; sd_steps := m_ny s - sn_step (m_snapshot s); sd_finished := m_finished s |}.

(* __init__ : fresh, or from next_iter_state *)
Definition ms0 (c : cfg) (workers : list wk) (wsnap : list wsave) : ms :=
  {| m_send := 0; m_rcvd := 0; m_info := []; m_outst := 0; m_status := repeat true (c_W c); m_cyc := 0; m_ny := 0;
     m_siy := 0; m_samp := 0; m_msnaps := []; m_last := c_W c - 1; m_wsnap := wsnap;
     m_snapshot := {| sn_step := 0; sn_last := c_W c - 1; sn_main := (0, 0); sn_workers := wsnap |};
     m_finished := false; m_workers := workers; m_assert := None |}.

Definition sdl_fresh (c : cfg) : ms :=
  iter_n (try_put_index c) (c_P c * c_W c) (ms0 c (repeat wk_fresh (c_W c)) (repeat (0, false) (c_W c))).

(* k calls of next(self) inside __init__ (replay); results are dropped *)
Fixpoint replay (c : cfg) (k : nat) (s : ms) (sched : list nat) : ms * list nat :=
  match k with
  | 0 => (s, sched)
  | S k' => let '(_, s', sched') := sdl_next c s sched in replay c k' s' sched'
  end.

Definition sdl_resume (c : cfg) (d : sdict) (sched : list nat) : ms * list nat :=
  let sn := sd_snapshot d in
  let fast_forward := match c_kind c with KIter => negb (c_stateful c) | KMap => false end in
  let workers := if fast_forward then repeat wk_fresh (c_W c)
                 else map (fun sv => wk_restored (fst sv, if c_stateful c then snd sv else false)) (sn_workers sn) in
  let base := ms0 c workers (sn_workers sn) in
  let s1 := {| m_send := 0; m_rcvd := 0; m_info := []; m_outst := 0; m_status := m_status base; m_cyc := 0;
               m_ny := sn_step sn; m_siy := fst (sn_main sn); m_samp := snd (sn_main sn); m_msnaps := []; m_last := m_last base;
               m_wsnap := sn_workers sn; m_snapshot := sn; m_finished := false; m_workers := workers; m_assert := None |} in
  let '(s3, sched1) :=
    if fast_forward then
      let s2 := iter_n (try_put_index c) (c_P c * c_W c) s1 in
      let n := m_ny s2 in
      let s2' := {| m_send := m_send s2; m_rcvd := m_rcvd s2; m_info := m_info s2; m_outst := m_outst s2; m_status := m_status s2;
                    m_cyc := m_cyc s2; m_ny := 0; m_siy := m_siy s2; m_samp := m_samp s2; m_msnaps := m_msnaps s2;
                    m_last := m_last s2; m_wsnap := m_wsnap s2; m_snapshot := m_snapshot s2; m_finished := m_finished s2;
                    m_workers := m_workers s2; m_assert := m_assert s2 |} in           (* 578074d *)
      let '(s2'', sch) := replay c n s2' sched in
      (if (0 <? n) && negb (m_last s2'' =? sn_last sn) then fail s2'' "last_yielded_worker_id does not match" else s2'', sch)
    else
      let s2 := {| m_send := 0; m_rcvd := 0; m_info := []; m_outst := 0; m_status := m_status s1;
                   m_cyc := (S (sn_last sn)) mod c_W c; m_ny := m_ny s1; m_siy := m_siy s1; m_samp := m_samp s1; m_msnaps := [];
                   m_last := sn_last sn; m_wsnap := m_wsnap s1; m_snapshot := sn; m_finished := false; m_workers := workers;
                   m_assert := None |} in
      (iter_n (try_put_index c) (c_P c * c_W c) s2, sched) in
  let '(s4, sched2) := replay c (sd_steps d) s3 sched1 in
  ({| m_send := m_send s4; m_rcvd := m_rcvd s4; m_info := m_info s4; m_outst := m_outst s4; m_status := m_status s4;
      m_cyc := m_cyc s4; m_ny := m_ny s4; m_siy := m_siy s4; m_samp := m_samp s4; m_msnaps := m_msnaps s4; m_last := m_last s4;
      m_wsnap := m_wsnap s4; m_snapshot := m_snapshot s4; m_finished := sd_finished d; m_workers := m_workers s4;
      m_assert := m_assert s4 |}, sched2).

(* ---------------------------------------------------------------- *)
(* the reference stream of one epoch (specification)                  *)
Fixpoint chunks (fuel bs : nat) (drop : bool) (xs : list nat) : list (list nat) :=
  match fuel with
  | 0 => []
  | S f => match xs with
           | [] => []
           | _ => if bs =? 0 then map (fun x => [x]) xs
                  else if length xs <? bs then (if drop then [] else [xs])
                  else firstn bs xs :: chunks f bs drop (skipn bs xs)
           end
  end.
Definition worker_batches (c : cfg) (w : nat) : list (list nat) :=
  chunks (S (length (shard c w))) (c_bs c) (c_drop c) (shard c w).

(* column-major interleave: round r takes the r-th batch of every worker that has one *)
Fixpoint interleave_rounds (rounds : nat) (r : nat) (lists : list (list (list nat))) : list (list nat) :=
  match rounds with
  | 0 => []
  | S k => flat_map (fun l => match nth_error l r with Some b => [b] | None => [] end) lists ++ interleave_rounds k (S r) lists
  end.
Definition reference (c : cfg) : list (list nat) :=
  match c_kind c with
  | KMap => c_batches c
  | KIter => let ls := map (worker_batches c) (seq 0 (c_W c)) in
             interleave_rounds (fold_right (fun l m => Nat.max (length l) m) 0 ls) 0 ls
  end.
