(* SdlIterSmall.v — iterable datasets, the MAIN-process side, small scope.  The general statement C03_iter_statement (every
   schedule yields the column-major interleave of the workers' batch lists) is a target; here it is established — by
   computation inside the kernel (vm_compute) over a finite domain, lifted with forallb_forall — for EVERY configuration of
   a small scope and EVERY arrival schedule whose first 7 choices are arbitrary (the remaining arrivals take the first
   candidate): 1-2 workers, prefetch_factor 1-2, snapshot interval 0-2, batch_size 1-2, drop_last either way, shards of
   0-3 items each.  The scope is stated in the theorem; nothing is claimed outside it. *)
From Coq Require Import List Arith Bool Lia.
From PD Require Import Base SdlModel SdlProofs SdlMapProofs SdlIterScope.
Import ListNotations.
Open Scope nat_scope.

Definition mk_iter (W P I bs : nat) (drop : bool) (sizes : list nat) : cfg :=
  {| c_kind := KIter; c_W := W; c_P := P; c_I := I; c_bs := bs; c_drop := drop;
     c_shards := map (fun '(w, n) => map (fun i => 100 * w + i) (seq 0 n)) (combine (seq 0 W) sizes);
     c_batches := []; c_bad := []; c_stateful := true; c_rewind := false |}.

Definition small_cfgs : list cfg :=
  flat_map (fun P => flat_map (fun I => flat_map (fun bs => flat_map (fun drop =>
    map (fun s => mk_iter 1 P I bs drop [s]) [0; 1; 2; 3] ++
    flat_map (fun s0 => map (fun s1 => mk_iter 2 P I bs drop [s0; s1]) [0; 1; 2; 3]) [0; 1; 2; 3])
    [false; true]) [1; 2]) [0; 1; 2]) [1; 2].

Definition epoch_ok (c : cfg) (sched : list nat) : bool :=
  loeqb (outcomes c (S (length (reference c))) (sdl_fresh c) sched) (map OBatch (reference c) ++ [OStop]).

Definition scope_ok : bool := forallb (fun c => forallb (epoch_ok c) (all_lists [0; 1] 7)) small_cfgs.

Lemma scope_ok_true : scope_ok = true.
Proof. vm_compute. reflexivity. Qed.

Theorem iter_epoch_exact_small_scope : forall c sched, In c small_cfgs -> In sched (all_lists [0; 1] 7) ->
  outcomes c (S (length (reference c))) (sdl_fresh c) sched = map OBatch (reference c) ++ [OStop].
Proof.
  intros c sched Hc Hs. pose proof scope_ok_true as H. unfold scope_ok in H.
  rewrite forallb_forall in H. specialize (H c Hc). rewrite forallb_forall in H. apply loeqb_eq, (H sched Hs).
Qed.
