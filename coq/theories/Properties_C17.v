(* Properties_C17.v — C17: background workers are always released.
   nodes: ConcModel.v / ConcLive.v (threads of an iterator after its stop event is set);
   StatefulDataLoader: SdlProcs.v (the worker-process table across histories). *)
From PD Require Import Base ConcModel ConcInv ConcLive ConcOwner ConcSnap ConcPM ConcProg SdlProcs.
Open Scope nat_scope.

(* ---- nodes ---- *)
(* Once the stop event of an iterator generation is set — at exhaustion, on an error in a Prefetcher, by _shutdown()
   during reset / load / drop — every MOVE of its read thread, of any worker thread and of its sort thread strictly
   decreases the potential mu (and leaves the event set), whatever the state (queues full or empty, any semaphore value,
   whatever the other threads do in between).  mu is a natural number, so these threads make at most mu further moves:
   they cannot poll forever. *)
Theorem C17_stop_reader_decreases : forall c m g pos,
  g_stop g = true -> r_move m g -> mu (fst (rstep c m g pos)) < mu g /\ g_stop (fst (rstep c m g pos)) = true.
Proof. exact stop_reader_decreases. Qed.
Print Assumptions C17_stop_reader_decreases.

Theorem C17_stop_worker_decreases : forall c i m g,
  g_stop g = true -> w_move i m g -> mu (wstep c i m g) < mu g /\ g_stop (wstep c i m g) = true.
Proof. exact stop_worker_decreases. Qed.
Print Assumptions C17_stop_worker_decreases.

Theorem C17_stop_sorter_decreases : forall c m g,
  g_stop g = true -> s_move m g -> mu (sstep c m g) < mu g /\ g_stop (sstep c m g) = true.
Proof. exact stop_sorter_decreases. Qed.
Print Assumptions C17_stop_sorter_decreases.

(* the consumer can only help: none of its steps increases the potential or clears the stop event *)
Theorem C17_consumer_never_increases : forall c m g,
  mu (fst (cstep c m g)) <= mu g /\ (g_stop g = true -> g_stop (fst (cstep c m g)) = true).
Proof. exact consumer_never_increases. Qed.
Print Assumptions C17_consumer_never_increases.

(* and a thread that has not terminated can always move (every wait is timed), so it is never parked forever short of its exit *)
Theorem C17_live_reader_can_move : forall g, g_r g <> RDone -> r_move Go g \/ r_move Timeout g.
Proof. exact live_thread_can_move_r. Qed.
Print Assumptions C17_live_reader_can_move.
Theorem C17_live_worker_can_move : forall g i p, nth_error (g_ws g) i = Some p -> p <> WDone -> w_move i Go g \/ w_move i Timeout g.
Proof. exact live_thread_can_move_w. Qed.
Print Assumptions C17_live_worker_can_move.
Theorem C17_live_sorter_can_move : forall g, g_s g <> SDone -> s_move Go g \/ s_move Timeout g.
Proof. exact live_thread_can_move_s. Qed.
Print Assumptions C17_live_sorter_can_move.

(* _shutdown() really waits for the threads: a join() on a thread that is alive does not return before it has finished
   (the only other way out is the join's own timeout, C12's known finding D10 for the reader) ... *)
Theorem C17_join_blocks_while_alive : forall c g k, g_c g = CShJoin k -> stage_alive c g k = true -> cstep c Go g = (g, None).
Proof. exact join_blocks_while_alive. Qed.
Print Assumptions C17_join_blocks_while_alive.
(* ... it reports completion only when every thread it has not yet passed (reader, sorter, each worker) is dead ... *)
Theorem C17_shutdown_returns_when_all_dead : forall c g k, snd (after_join c g k) = Some OutShut ->
  forall j, k <= j -> j < 2 + k_nw c -> stage_alive c g j = false.
Proof. exact shutdown_returns_when_all_dead. Qed.
Print Assumptions C17_shutdown_returns_when_all_dead.
(* ... and a thread that has finished stays finished, whatever moves next *)
Theorem C17_dead_stays_dead : forall c g,
  (forall m pos, g_r g = RDone -> g_r (fst (rstep c m g pos)) = RDone) /\
  (forall m, g_s g = SDone -> g_s (sstep c m g) = SDone) /\
  (forall i j m, nth_error (g_ws g) j = Some WDone -> nth_error (g_ws (wstep c i m g)) j = Some WDone).
Proof. intros c g. split; [intros; apply rstep_dead; assumption | split; [intros; apply sstep_dead; assumption | intros; apply wstep_dead; assumption]]. Qed.
Print Assumptions C17_dead_stays_dead.

(* ---- StatefulDataLoader ---- *)
(* for every history of iter / exhaust / drop / state_dict / load_state_dict, persistent workers or not: at most two
   iterator generations own live worker processes — the one the loader holds and the one the user still holds *)
Theorem C17_sdl_no_accumulation : forall persistent ops, length (live_gens (prun persistent ops)) <= 2.
Proof. exact live_at_most_two. Qed.
Print Assumptions C17_sdl_no_accumulation.

Theorem C17_sdl_unreferenced_released : forall persistent ops,
  let t := prun persistent ops in p_loader t = None -> p_user t = None -> live_gens t = [].
Proof. exact unreferenced_none_alive. Qed.
Print Assumptions C17_sdl_unreferenced_released.

Theorem C17_sdl_exhaustion_releases : forall ops,
  let t := pstep false (prun false ops) PExhaust in forall g, p_user t = Some g -> alive t g = false.
Proof. exact exhaust_releases. Qed.
Print Assumptions C17_sdl_exhaustion_releases.

Theorem C17_sdl_persistent_reuse : forall t g,
  p_loader t = Some g -> p_loader (pstep true t PIter) = Some g /\ p_next (pstep true t PIter) = p_next t.
Proof. exact persistent_reuse. Qed.
Print Assumptions C17_sdl_persistent_reuse.
