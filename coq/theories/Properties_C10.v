(* Properties_C10.v — C10: dataset errors surface at the right batch and iteration carries on.
   Model: SdlModel.v with in-band error results (RErr); proofs: SdlMapProofs.v. *)
From PD Require Import Base SdlModel SdlObs SdlMapProofs.
Open Scope list_scope. Open Scope nat_scope.

(* map-style, snapshot interval <= 1 (the default), ANY set of failing indices, EVERY schedule: the k-th outcome is an
   error exactly when batch k contains a failing index, every other outcome is that batch, nothing is lost after an
   error, and the epoch ends with StopIteration after the last batch *)
Theorem C10_error_position_exact : forall c, c_kind c = KMap -> 0 < c_W c -> 0 < c_P c -> c_I c <= 1 ->
  forall sched, outcomes c (S (LL c)) (sdl_fresh c) sched = map (want c) (seq 0 (LL c)) ++ [OStop].
Proof. intros c Hk HW HP HI. apply map_epoch_exact; auto. Qed.
Print Assumptions C10_error_position_exact.

Corollary C10_kth_outcome : forall c, c_kind c = KMap -> 0 < c_W c -> 0 < c_P c -> c_I c <= 1 ->
  forall sched k, k < LL c ->
  nth k (outcomes c (S (LL c)) (sdl_fresh c) sched) OStop = (if badb c k then OErr else OBatch (nth k (c_batches c) [])).
Proof.
  intros c Hk HW HP HI sched k Hlt. rewrite (C10_error_position_exact c Hk HW HP HI sched).
  rewrite app_nth1 by (rewrite map_length, seq_length; exact Hlt).
  rewrite (nth_indep _ OStop (want c 0)) by (rewrite map_length, seq_length; exact Hlt).
  rewrite map_nth, seq_nth by exact Hlt. reflexivity.
Qed.
Print Assumptions C10_kth_outcome.

(* FULL statement for every snapshot interval — FALSE of the faithful model (and of the code): known finding D9 *)
Definition C10_statement_all_intervals : Prop :=
  forall c, c_kind c = KMap -> 0 < c_W c -> 0 < c_P c ->
  forall sched, outcomes c (S (LL c)) (sdl_fresh c) sched = map (want c) (seq 0 (LL c)) ++ [OStop].

Definition d9_cfg : cfg :=
  {| c_kind := KMap; c_W := 2; c_P := 2; c_I := 2; c_bs := 1; c_drop := false; c_shards := [];
     c_batches := [[0];[1];[2];[3];[4];[5];[6];[7];[8];[9];[10];[11]]; c_bad := [2]; c_stateful := true; c_rewind := false |}.

(* witness (n=12, batch_size=1, num_workers=2, snapshot_every_n_steps=2, index 2 raises): after the error the next snapshot
   boundary trips _take_snapshot's alignment assertion and batch [4] is lost *)
Theorem C10_all_intervals_refuted : ~ C10_statement_all_intervals.
Proof.
  intros H. specialize (H d9_cfg eq_refl ltac:(cbn; lia) ltac:(cbn; lia) []). vm_compute in H. discriminate.
Qed.
Print Assumptions C10_all_intervals_refuted.

Example d9_outcomes :
  firstn 6 (outcomes d9_cfg 13 (sdl_fresh d9_cfg) []) =
  [OBatch [0]; OBatch [1]; OErr; OBatch [3]; OAssert "assert main_snapshot_idx == rcvd_idx - 1"; OAssert "assert main_snapshot_idx == rcvd_idx - 1"].
Proof. vm_compute. reflexivity. Qed.
