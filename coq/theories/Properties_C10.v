(* Properties_C10.v — placeholder until SdlErrProofs.v lands; see DESIGN.md 4 C10. *)
From PD Require Import Base SdlModel SdlObs.
Theorem C10_placeholder : True. Proof. exact I. Qed.
Print Assumptions C10_placeholder.
