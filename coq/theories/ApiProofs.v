From PD Require Import Base NodeModel NodeObs NodeResumeProofs.
Open Scope string_scope.
Open Scope list_scope.
Open Scope nat_scope.
(* ApiProofs.v -- the Loader model (NodeModel.v: ld_iter / ld_next / ld_state_dict / ld_load, with the
   LoaderIterator look-ahead cache) REFINES a tiny list-based reference, for ALL finite sequences of
   API calls over {iter, next, state_dict, load_state_dict(any earlier state), new Loader}. *)

(* ------------------------------------------------------------------ *)
(* the reference                                                        *)
Record rl := {
  rl_cur : option (nat * nat * bool);   (* current iterator: epoch, cursor, "an item was requested in this epoch" *)
  rl_pending : option (nat * nat);      (* state loaded since the last iter() *)
  rl_for_sd : bool }.                   (* the iterator was created by state_dict(): the next iter() reuses it *)

Definition rl_new : rl := {| rl_cur := None; rl_pending := None; rl_for_sd := false |}.

Section Ref.
  Variable p : pipe.
  Variable restart : bool.     (* restart_on_stop_iteration *)
  Variable look : bool.        (* the "requested" flag right after resuming inside an epoch *)

  Definition rl_iter (r : rl) : rl :=
    match rl_cur r, rl_for_sd r with
    | Some _, true => {| rl_cur := rl_cur r; rl_pending := rl_pending r; rl_for_sd := false |}
    | _, _ =>
        match rl_pending r with
        | Some (e, k) =>
            {| rl_cur := Some (if restart && (length (sem p e) <=? k) then (S e, 0, false) else (e, k, look));
               rl_pending := None; rl_for_sd := rl_for_sd r |}
        | None =>
            {| rl_cur := Some (match rl_cur r with
                               | None => (0, 0, false)
                               | Some (e, _, req) => (if req then S e else e, 0, false)
                               end);
               rl_pending := None; rl_for_sd := rl_for_sd r |}
        end
    end.

  Definition rl_next (r : rl) : outcome * rl :=
    match rl_cur r with
    | None => (OErr "no iterator", r)
    | Some (e, k, _) =>
        match nth_error (sem p e) k with
        | Some x => (OItem x, {| rl_cur := Some (e, S k, true); rl_pending := rl_pending r; rl_for_sd := rl_for_sd r |})
        | None => (OStop, {| rl_cur := Some (e, k, true); rl_pending := rl_pending r; rl_for_sd := rl_for_sd r |})
        end
    end.

  Definition rl_pos (r : rl) : nat * nat :=
    match rl_cur r with Some (e, k, _) => (e, k) | None => (0, 0) end.

  Definition rl_state (r : rl) : (nat * nat) * rl :=
    let r1 := match rl_cur r with
              | None => let r' := rl_iter r in
                        {| rl_cur := rl_cur r'; rl_pending := rl_pending r'; rl_for_sd := true |}
              | Some _ => r
              end in
    (rl_pos r1, r1).

  Definition rl_load (r : rl) (ek : nat * nat) : rl :=
    {| rl_cur := rl_cur r; rl_pending := Some ek; rl_for_sd := false |}.

  (* observations of the reference; [saved] = abstract positions of the state dicts saved so far *)
  Fixpoint ref_hist_from (ops : list hop) (r : rl) (saved : list (nat * nat)) : list obs :=
    match ops with
    | [] => []
    | HIter :: t => OS "iter" :: ref_hist_from t (rl_iter r) saved
    | HNext :: t => let '(o, r') := rl_next r in obs_of_outcome o :: ref_hist_from t r' saved
    | HState :: t => let '(ek, r') := rl_state r in OS "state" :: ref_hist_from t r' (saved ++ [ek])
    | HLoad i :: t => OS "load" :: ref_hist_from t (rl_load r (nth i saved (0, 0))) saved
    | HFresh :: t => OS "fresh" :: ref_hist_from t rl_new saved
    end.

  (* final reference state and saved positions *)
  Fixpoint ref_final (ops : list hop) (r : rl) (saved : list (nat * nat)) : rl * list (nat * nat) :=
    match ops with
    | [] => (r, saved)
    | HIter :: t => ref_final t (rl_iter r) saved
    | HNext :: t => ref_final t (snd (rl_next r)) saved
    | HState :: t => let '(ek, r') := rl_state r in ref_final t r' (saved ++ [ek])
    | HLoad i :: t => ref_final t (rl_load r (nth i saved (0, 0))) saved
    | HFresh :: t => ref_final t rl_new saved
    end.
End Ref.

(* the FAITHFUL reference: the Loader's look-ahead (li_has_next, only when restart = true) pulls one item *)
Definition ref_history (p : pipe) (restart : bool) (ops : list hop) : list obs :=
  ref_hist_from p restart restart ops rl_new [].
(* the IDEAL documented reference: resuming requests nothing *)
Definition ideal_ref_history (p : pipe) (restart : bool) (ops : list hop) : list obs :=
  ref_hist_from p restart false ops rl_new [].
Definition ref_positions (p : pipe) (restart : bool) (ops : list hop) : list (nat * nat) :=
  snd (ref_final p restart restart ops rl_new []).

(* final model state and saved state dicts *)
Fixpoint run_final (p : pipe) (restart : bool) (ops : list hop) (l : loader) (saved : list sd) : loader * list sd :=
  match ops with
  | [] => (l, saved)
  | HIter :: r => run_final p restart r (ld_iter p restart l) saved
  | HNext :: r => run_final p restart r (snd (ld_next p l)) saved
  | HState :: r => let '(s, l') := ld_state_dict p restart l in run_final p restart r l' (saved ++ [s])
  | HLoad i :: r => run_final p restart r (ld_load l (nth i saved SNone)) saved
  | HFresh :: r => run_final p restart r ld_new saved
  end.
Definition saved_states (p : pipe) (restart : bool) (ops : list hop) : list sd :=
  snd (run_final p restart ops ld_new []).

Definition strip_state (o : obs) : obs :=
  match o with
  | OL [OS "state"; _] => OS "state"
  | _ => o
  end.

(* well-formed call sequences: next() only on an iterator handed out by iter() since the last new
   Loader; load_state_dict only of a state dict saved earlier *)
Fixpoint wf_from (have_it : bool) (nsaved : nat) (ops : list hop) : bool :=
  match ops with
  | [] => true
  | HIter :: t => wf_from true nsaved t
  | HNext :: t => have_it && wf_from have_it nsaved t
  | HState :: t => wf_from have_it (S nsaved) t
  | HLoad i :: t => (i <? nsaved) && wf_from have_it nsaved t
  | HFresh :: t => wf_from false nsaved t
  end.
Definition wf_ops (ops : list hop) : bool := wf_from false 0 ops.

Fixpoint no_sampler (p : pipe) : bool :=
  match p with
  | PSrc _ _ => true
  | PSampler _ => false
  | PMap _ q | PParMap _ _ q | PPrefetch _ q | PBatch _ _ q | PUnbatch q | PFilter _ q => no_sampler q
  end.
(* restoring a state dict pulls nothing from the sources *)
Fixpoint lazy_resume (p : pipe) : bool :=
  match p with
  | PSrc _ _ | PSampler _ => true
  | PMap _ q | PBatch _ _ q | PFilter _ q => lazy_resume q
  | PParMap _ _ _ | PPrefetch _ _ | PUnbatch _ => false
  end.
Fixpoint no_load (ops : list hop) : bool :=
  match ops with
  | [] => true
  | HLoad _ :: _ => false
  | _ :: t => no_load t
  end.

(* ------------------------------------------------------------------ *)
(* pipelines without a sampler: the epoch number is irrelevant           *)
Lemma sem_no_sampler p : no_sampler p = true -> forall e e', sem p e = sem p e'.
Proof.
  induction p; cbn [no_sampler sem]; intros H e e'; try discriminate; try reflexivity;
    rewrite (IHp H e e'); reflexivity.
Qed.

Lemma Rep_no_sampler p : no_sampler p = true -> forall e e' k b t, Rep p e k b t -> Rep p e' k b t.
Proof.
  induction p; cbn [no_sampler]; intros H e e' k b t HR; try discriminate.
  - exact HR.
  - destruct HR as (s & -> & HR). exists s. split; [reflexivity|]. eapply IHp; eauto.
  - rewrite Rep_parmap in *. destruct HR as (s & snap & steps & y & stopped & -> & HR & Hs & HS & Hst).
    rewrite (sem_no_sampler p H e' e).
    exists s, snap, steps, y, stopped. split; [reflexivity|]. split; [eapply IHp; eauto|]. split; [exact Hs|].
    split; [|exact Hst]. intros t0. destruct (HS t0) as (b' & Hb). exists b'. eapply IHp; eauto.
  - rewrite Rep_prefetch in *. destruct HR as (s & snap & steps & y & stopped & -> & HR & Hs & HS & Hst).
    rewrite (sem_no_sampler p H e' e).
    exists s, snap, steps, y, stopped. split; [reflexivity|]. split; [eapply IHp; eauto|]. split; [exact Hs|].
    split; [|exact Hst]. intros t0. destruct (HS t0) as (b' & Hb). exists b'. eapply IHp; eauto.
  - cbn [Rep] in *. unfold BatchInv in *. destruct HR as (s & j & -> & HR & H1 & H2).
    rewrite (sem_no_sampler p H e' e). exists s, j. split; [reflexivity|]. split; [eapply IHp; eauto|]. auto.
  - rewrite Rep_unbatch in *. destruct HR as (s & ba & idx & ca & j & -> & HR & H1 & H2 & H3).
    rewrite (sem_no_sampler p H e' e).
    assert (HS : forall j c, StRep p e j c -> StRep p e' j c).
    { intros j0 c HS t0. destruct (HS t0) as (b' & Hb). exists b'. eapply IHp; eauto. }
    exists s, ba, idx, ca, j. split; [reflexivity|]. split; [eapply IHp; eauto|]. split; [exact H1|].
    split; [exact H2|].
    destruct H3 as [(c & j0 & x & -> & -> & E & -> & HS0 & ->)|(Ex & Hor & HS0)].
    + left. exists c, j0, x. repeat split; auto.
    + right. split; [exact Ex|]. split; [exact Hor|]. destruct ca; auto.
  - cbn [Rep] in *. unfold FilInv in *. destruct HR as (s & nf & ny & j & -> & HR & H1 & H2).
    rewrite (sem_no_sampler p H e' e). exists s, nf, ny, j. split; [reflexivity|].
    split; [eapply IHp; eauto|]. auto.
Qed.

(* pipelines whose resume pulls nothing: a freshly restored node has not "started" *)
Lemma lazy_reset_flag p : lazy_resume p = true -> forall e k b t0 c,
  Rep p e k b (node_reset p t0 (Some c)) -> Rep p e k false (node_reset p t0 (Some c)).
Proof.
  induction p; cbn [lazy_resume]; intros H e k b t0 c HR; try discriminate.
  - exact HR.
  - rewrite reset_sampler in *. cbn [Rep] in *. destruct HR as [HE HL]. inversion HE; subst. auto.
  - rewrite reset_map in *. cbn [option_map] in *. destruct HR as (s & HE & HR). inversion HE; subst s.
    eexists; split; [reflexivity|]. eapply IHp; eauto.
  - rewrite reset_batch in *. cbn [option_map Rep] in *. unfold BatchInv in *.
    destruct HR as (s & j & HE & HR & H1 & H2). inversion HE; subst s.
    eexists _, j. split; [reflexivity|]. split; [eapply IHp; eauto|]. auto.
  - rewrite reset_filter in *. cbn [Rep] in *. unfold FilInv in *.
    destruct HR as (s & nf & ny & j & HE & HR & H1 & H2). inversion HE; subst s nf ny.
    eexists _, _, _, j. split; [reflexivity|]. split; [eapply IHp; eauto|]. auto.
Qed.

(* ------------------------------------------------------------------ *)
(* the simulation relation                                              *)
Definition mk_sd (c : sd) (n : nat) : sd := SD [("root", c); ("num_yielded", SNat n)].

Lemma strip_outcome o : strip_state (obs_of_outcome o) = obs_of_outcome o.
Proof. destruct o; reflexivity. Qed.

Lemma Forall2_nth' {A B} (R : A -> B -> Prop) l1 l2 d1 d2 i :
  Forall2 R l1 l2 -> i < length l1 -> R (nth i l1 d1) (nth i l2 d2).
Proof.
  intros H. revert i. induction H; intros i Hi; cbn [length] in Hi; [lia|].
  destruct i; cbn [nth]; [assumption|]. apply IHForall2. lia.
Qed.

Section Sim.
  Variable p : pipe.
  Variables restart look : bool.
  Hypothesis Hok : pipe_ok p = true.
  Let G : Good p := good_all p Hok.

  (* when the reference's choice of the "requested" flag after a resume is the model's *)
  Definition compat : bool := no_sampler p || (Bool.eqb look restart && (restart || lazy_resume p)).

  (* a saved state dict denotes reference position (e, k) *)
  Definition sd_ok (s : sd) (ek : nat * nat) : Prop :=
    exists c, s = mk_sd c (snd ek) /\ StRep p (fst ek) (snd ek) c /\ snd ek <= length (sem p (fst ek)).
  Definition flag_ok (b req : bool) : Prop := no_sampler p = true \/ b = req.
  (* LoaderIterator vs. reference cursor, look-ahead cache accounted for *)
  Definition it_ok (it : li) (e k : nat) (req : bool) : Prop :=
    match li_cached_item it with
    | None => li_cached_sd it = None /\ li_num_yielded it = k /\
              exists b, flag_ok b req /\ Rep p e k b (li_root it)
    | Some x => nth_error (sem p e) k = Some x /\ li_num_yielded it = S k /\ flag_ok true req /\
                Rep p e (S k) true (li_root it) /\
                exists c, li_cached_sd it = Some (mk_sd c k) /\ StRep p e k c
    end.
  Definition sim (l : loader) (r : rl) : Prop :=
    ld_iter_for_sd l = rl_for_sd r /\
    match ld_next_sd l, rl_pending r with
    | None, None => True
    | Some s, Some ek => sd_ok s ek
    | _, _ => False
    end /\
    match ld_it l, rl_cur r with
    | None, None => True
    | Some it, Some (e, k, req) => it_ok it e k req
    | _, _ => False
    end.

  Lemma sim_new : sim ld_new rl_new.
  Proof. unfold sim. cbn. auto. Qed.

  (* --- LoaderIterator level --- *)
  Lemma it_ok_Rep it e k req : it_ok it e k req ->
    exists k' b, flag_ok b req /\ Rep p e k' b (li_root it).
  Proof.
    unfold it_ok. destruct (li_cached_item it).
    - intros (_ & _ & Hf & HR & _). eauto.
    - intros (_ & _ & b & Hf & HR). eauto.
  Qed.

  Lemma reset_none_ok it e k req : it_ok it e k req ->
    it_ok (li_reset p it None) (if req then S e else e) 0 false.
  Proof.
    intros H. destruct (it_ok_Rep _ _ _ _ H) as (k' & b & Hf & HR).
    unfold it_ok, li_reset. cbn [li_cached_item li_cached_sd li_num_yielded li_root].
    split; [reflexivity|]. split; [reflexivity|]. exists false. split; [right; reflexivity|].
    assert (H0 : Rep p (if b then S e else e) 0 false (node_reset p (li_root it) None)).
    { apply (g_reset p G). right. exists e, k', b. auto. }
    destruct Hf as [Hn| ->]; [|exact H0]. eapply Rep_no_sampler; eauto.
  Qed.

  Lemma reset_new_ok : it_ok (li_reset p li_new None) 0 0 false.
  Proof.
    unfold it_ok, li_reset, li_new. cbn [li_cached_item li_cached_sd li_num_yielded li_root].
    split; [reflexivity|]. split; [reflexivity|]. exists false. split; [right; reflexivity|].
    apply Rep_init. exact G.
  Qed.

  Lemma reset_some_eq it c n :
    li_reset p it (Some (mk_sd c n)) =
    {| li_root := node_reset p (li_root it) (Some c); li_cached_item := None; li_cached_sd := None;
       li_num_yielded := n |}.
  Proof. reflexivity. Qed.

  Lemma has_next_spec root n e k b : Rep p e k b root ->
    match nth_error (sem p e) k with
    | Some x => exists c r',
        li_has_next p {| li_root := root; li_cached_item := None; li_cached_sd := None; li_num_yielded := n |}
        = (true, {| li_root := r'; li_cached_item := Some x; li_cached_sd := Some (mk_sd c n);
                    li_num_yielded := S n |})
        /\ StRep p e k c /\ Rep p e (S k) true r'
    | None => exists c r',
        li_has_next p {| li_root := root; li_cached_item := None; li_cached_sd := None; li_num_yielded := n |}
        = (false, {| li_root := r'; li_cached_item := None; li_cached_sd := Some (mk_sd c n);
                     li_num_yielded := n |})
        /\ Rep p e k true r'
    end.
  Proof.
    intros HR. unfold li_has_next, li_get_state, li_next.
    cbn [li_cached_item li_cached_sd li_num_yielded li_root].
    destruct (state_Rep p e k b root Hok HR) as [H1 H2].
    destruct (node_state p root) as [c r1]. cbn [fst snd] in *.
    cbn [li_cached_item li_cached_sd li_num_yielded li_root].
    rewrite (node_next_Rep _ _ _ _ _ H1).
    destruct (g_next p G _ _ _ _ H1) as (r2 & H3 & H4). rewrite H3.
    destruct (nth_error (sem p e) k) as [x|] eqn:E; cbn [outc].
    - rewrite (adv_some _ _ _ E) in H4. exists c, r2.
      cbn [li_cached_item li_cached_sd li_num_yielded li_root]. auto.
    - rewrite (adv_none _ _ E) in H4. exists c, r2. auto.
  Qed.

  Lemma next_ok it e k req : it_ok it e k req ->
    fst (li_next p it) = outc (nth_error (sem p e) k) /\
    it_ok (snd (li_next p it)) e (adv k (sem p e)) true.
  Proof.
    unfold it_ok, li_next. destruct (li_cached_item it) as [x|].
    - intros (E & Hn & Hf & HR & c & Hc & HS). cbn [fst snd li_cached_item li_cached_sd li_num_yielded li_root].
      rewrite E, (adv_some _ _ _ E). split; [reflexivity|]. split; [reflexivity|]. split; [exact Hn|].
      exists true. split; [right; reflexivity|exact HR].
    - intros (Hc & Hn & b & Hf & HR). rewrite (node_next_Rep _ _ _ _ _ HR).
      destruct (g_next p G _ _ _ _ HR) as (r2 & H3 & H4). rewrite H3.
      destruct (nth_error (sem p e) k) as [x|] eqn:E; cbn [outc fst snd li_cached_item li_cached_sd li_num_yielded li_root].
      + rewrite (adv_some _ _ _ E) in *. split; [reflexivity|]. split; [exact Hc|]. split; [congruence|].
        exists true. split; [right; reflexivity|exact H4].
      + rewrite (adv_none _ _ E) in *. split; [reflexivity|]. split; [exact Hc|]. split; [exact Hn|].
        exists true. split; [right; reflexivity|exact H4].
  Qed.

  Lemma state_ok it e k req : it_ok it e k req ->
    sd_ok (fst (li_get_state p it)) (e, k) /\ it_ok (snd (li_get_state p it)) e k req.
  Proof.
    intros H. pose proof H as H'. revert H. unfold it_ok at 1, li_get_state.
    destruct (li_cached_item it) as [x|] eqn:Ei.
    - intros (E & Hn & Hf & HR & c & Hc & HS). rewrite Hc. cbn [fst snd]. split; [|exact H'].
      exists c. cbn [fst snd]. split; [reflexivity|]. split; [exact HS|].
      apply nth_error_Some_lt in E. lia.
    - intros (Hc & Hn & b & Hf & HR). rewrite Hc.
      destruct (state_Rep p e k b _ Hok HR) as [H1 H2].
      destruct (node_state p (li_root it)) as [c r1]. cbn [fst snd] in *. split.
      + exists c. cbn [fst snd]. rewrite Hn. split; [reflexivity|]. split; [exact H2|].
        eapply g_len; eauto.
      + unfold it_ok. cbn [li_cached_item li_cached_sd li_num_yielded li_root].
        split; [reflexivity|]. split; [exact Hn|]. exists b. auto.
  Qed.

  (* the resume branch of ld_iter and of the reference *)
  Definition resume_it (it : li) (s : sd) : li :=
    let it1 := li_reset p it (Some s) in
    if restart then let '(h, it1') := li_has_next p it1 in if h then it1' else li_reset p it1' None
    else it1.
  Definition rl_resume (e k : nat) : nat * nat * bool :=
    if restart && (length (sem p e) <=? k) then (S e, 0, false) else (e, k, look).

  Lemma resume_ok it s e k : sd_ok s (e, k) -> compat = true ->
    match rl_resume e k with (e', k', req') => it_ok (resume_it it s) e' k' req' end.
  Proof.
    intros (c & -> & HS & Hk) Hc. cbn [fst snd] in *. unfold resume_it, rl_resume.
    rewrite reset_some_eq. destruct (HS (li_root it)) as (b' & Hb).
    unfold compat in Hc. destruct restart; cbn [andb].
    - pose proof (has_next_spec _ k _ _ _ Hb) as HN.
      destruct (nth_error (sem p e) k) as [x|] eqn:E.
      + destruct HN as (c' & r' & -> & HS' & HR').
        apply nth_error_Some_lt in E as Hlt. rewrite (proj2 (Nat.leb_gt _ _)) by lia.
        unfold it_ok. cbn [li_cached_item li_cached_sd li_num_yielded li_root].
        split; [exact E|]. split; [reflexivity|]. split.
        * unfold flag_ok. destruct (no_sampler p); [left; reflexivity|right]. cbn [orb andb] in Hc.
          destruct look; [reflexivity|discriminate].
        * split; [exact HR'|]. exists c'. auto.
      + destruct HN as (c' & r' & -> & HR').
        apply nth_error_None in E. rewrite (proj2 (Nat.leb_le _ _)) by lia.
        unfold it_ok, li_reset. cbn [li_cached_item li_cached_sd li_num_yielded li_root].
        split; [reflexivity|]. split; [reflexivity|]. exists false. split; [right; reflexivity|].
        apply (Rep_next_epoch p e k r' G HR').
    - unfold it_ok. cbn [li_cached_item li_cached_sd li_num_yielded li_root].
      split; [reflexivity|]. split; [reflexivity|].
      unfold flag_ok. destruct (no_sampler p) eqn:En.
      + exists b'. split; [left; reflexivity|exact Hb].
      + cbn [orb andb] in Hc. destruct look; [discriminate|]. cbn in Hc.
        exists false. split; [right; reflexivity|]. eapply lazy_reset_flag; eauto.
  Qed.

  (* --- Loader level: one simulation lemma per operation --- *)
  Lemma sim_iter l r : sim l r -> (rl_pending r = None \/ compat = true) ->
    sim (ld_iter p restart l) (rl_iter p restart look r).
  Proof.
    destruct l as [oit fsd nsd], r as [cur pend rfsd]. unfold sim.
    cbn [ld_it ld_iter_for_sd ld_next_sd rl_cur rl_pending rl_for_sd].
    intros (Hf & Hp & Hc) Hside. subst rfsd. unfold ld_iter, rl_iter.
    cbn [ld_it ld_iter_for_sd ld_next_sd rl_cur rl_pending rl_for_sd].
    destruct oit as [it|], cur as [[[e k] req]|]; try contradiction; cbn [negb andb].
    - destruct fsd.
      + cbn [ld_it ld_iter_for_sd ld_next_sd rl_cur rl_pending rl_for_sd]. auto.
      + destruct nsd as [s|], pend as [[e' k']|]; try contradiction;
          cbn [ld_it ld_iter_for_sd ld_next_sd rl_cur rl_pending rl_for_sd];
          (split; [reflexivity|]); (split; [exact I|]).
        * destruct Hside as [Hs|Hs]; [discriminate|]. exact (resume_ok it s e' k' Hp Hs).
        * exact (reset_none_ok it e k req Hc).
    - destruct nsd as [s|], pend as [[e' k']|]; try contradiction;
        cbn [ld_it ld_iter_for_sd ld_next_sd rl_cur rl_pending rl_for_sd];
        (split; [reflexivity|]); (split; [exact I|]).
      + destruct Hside as [Hs|Hs]; [discriminate|]. exact (resume_ok li_new s e' k' Hp Hs).
      + exact reset_new_ok.
  Qed.

  Lemma sim_next l r : sim l r ->
    fst (ld_next p l) = fst (rl_next p r) /\ sim (snd (ld_next p l)) (snd (rl_next p r)).
  Proof.
    destruct l as [oit fsd nsd], r as [cur pend rfsd]. unfold sim, ld_next, rl_next.
    cbn [ld_it ld_iter_for_sd ld_next_sd rl_cur rl_pending rl_for_sd].
    intros (Hf & Hp & Hc).
    destruct oit as [it|], cur as [[[e k] req]|]; try contradiction.
    - destruct (next_ok it e k req Hc) as [H1 H2]. destruct (li_next p it) as [o it']. cbn [fst snd] in *.
      subst o. destruct (nth_error (sem p e) k) as [x|] eqn:E;
        [rewrite (adv_some _ _ _ E) in H2|rewrite (adv_none _ _ E) in H2];
        cbn [outc fst snd ld_it ld_iter_for_sd ld_next_sd rl_cur rl_pending rl_for_sd]; auto.
    - cbn [fst snd ld_it ld_iter_for_sd ld_next_sd rl_cur rl_pending rl_for_sd]. auto.
  Qed.

  Lemma rl_iter_cur r : rl_cur (rl_iter p restart look r) <> None.
  Proof.
    destruct r as [cur pend rfsd]. unfold rl_iter. cbn [rl_cur rl_pending rl_for_sd].
    destruct cur as [c|]; [destruct rfsd|]; cbn [rl_cur]; try discriminate;
      destruct pend as [[e k]|]; cbn [rl_cur]; discriminate.
  Qed.

  Lemma sim_state l r : sim l r -> (rl_pending r = None \/ compat = true) ->
    sd_ok (fst (ld_state_dict p restart l)) (fst (rl_state p restart look r)) /\
    sim (snd (ld_state_dict p restart l)) (snd (rl_state p restart look r)).
  Proof.
    intros Hsim Hside.
    (* the iterator exists after the lazy iter() *)
    assert (H1 : exists it fsd nsd e k req pend,
      (match ld_it l with
       | None => {| ld_it := ld_it (ld_iter p restart l); ld_iter_for_sd := true;
                    ld_next_sd := ld_next_sd (ld_iter p restart l) |}
       | Some _ => l end) = {| ld_it := Some it; ld_iter_for_sd := fsd; ld_next_sd := nsd |} /\
      (match rl_cur r with
       | None => {| rl_cur := rl_cur (rl_iter p restart look r);
                    rl_pending := rl_pending (rl_iter p restart look r); rl_for_sd := true |}
       | Some _ => r end) = {| rl_cur := Some (e, k, req); rl_pending := pend; rl_for_sd := fsd |} /\
      sim {| ld_it := Some it; ld_iter_for_sd := fsd; ld_next_sd := nsd |}
          {| rl_cur := Some (e, k, req); rl_pending := pend; rl_for_sd := fsd |}).
    { pose proof (sim_iter l r Hsim Hside) as Hi. pose proof (rl_iter_cur r) as Hn.
      destruct l as [oit fsd nsd], r as [cur pend rfsd]. cbn [ld_it rl_cur].
      destruct Hsim as (Hf & Hp & Hc). cbn [ld_it ld_iter_for_sd ld_next_sd rl_cur rl_pending rl_for_sd] in Hf, Hp, Hc.
      destruct oit as [it|], cur as [[[e k] req]|]; try contradiction.
      - subst rfsd. exists it, fsd, nsd, e, k, req, pend. split; [reflexivity|]. split; [reflexivity|].
        unfold sim. cbn [ld_it ld_iter_for_sd ld_next_sd rl_cur rl_pending rl_for_sd]. auto.
      - destruct (ld_iter p restart {| ld_it := None; ld_iter_for_sd := fsd; ld_next_sd := nsd |})
          as [oit' fsd' nsd'].
        destruct (rl_iter p restart look {| rl_cur := None; rl_pending := pend; rl_for_sd := rfsd |})
          as [cur' pend' rfsd'].
        destruct Hi as (Hf' & Hp' & Hc'). cbn [ld_it ld_iter_for_sd ld_next_sd rl_cur rl_pending rl_for_sd] in *.
        destruct oit' as [it|], cur' as [[[e k] req]|]; try contradiction; try congruence.
        exists it, true, nsd', e, k, req, pend'. split; [reflexivity|]. split; [reflexivity|].
        unfold sim. cbn [ld_it ld_iter_for_sd ld_next_sd rl_cur rl_pending rl_for_sd]. auto. }
    destruct H1 as (it & fsd & nsd & e & k & req & pend & E1 & E2 & (Hf & Hp & Hc)).
    unfold ld_state_dict, rl_state. cbv zeta. rewrite E1, E2. unfold rl_pos.
    cbn [ld_it ld_iter_for_sd ld_next_sd rl_cur rl_pending rl_for_sd] in *.
    destruct (state_ok it e k req Hc) as [H3 H4].
    destruct (li_get_state p it) as [s it']. cbn [fst snd] in *. split; [exact H3|].
    unfold sim. cbn [ld_it ld_iter_for_sd ld_next_sd rl_cur rl_pending rl_for_sd]. auto.
  Qed.

  Lemma sim_load l r s ek : sim l r -> sd_ok s ek -> sim (ld_load l s) (rl_load r ek).
  Proof.
    intros (Hf & Hp & Hc) Hs. unfold sim, ld_load, rl_load.
    cbn [ld_it ld_iter_for_sd ld_next_sd rl_cur rl_pending rl_for_sd]. auto.
  Qed.

  (* the pending slot of the reference stays empty as long as nothing is loaded *)
  Lemma rl_iter_pending r : rl_pending r = None -> rl_pending (rl_iter p restart look r) = None.
  Proof.
    destruct r as [cur pend rfsd]. cbn [rl_pending]. intros ->. unfold rl_iter. cbn [rl_cur rl_pending rl_for_sd].
    destruct cur; [destruct rfsd|]; reflexivity.
  Qed.
  Lemma rl_next_pending r : rl_pending (snd (rl_next p r)) = rl_pending r.
  Proof.
    destruct r as [cur pend rfsd]. unfold rl_next. cbn [rl_cur rl_pending rl_for_sd].
    destruct cur as [[[e k] req]|]; [|reflexivity]. destruct (nth_error (sem p e) k); reflexivity.
  Qed.
  Lemma rl_state_pending r : rl_pending r = None -> rl_pending (snd (rl_state p restart look r)) = None.
  Proof.
    intros H. unfold rl_state. cbn [snd]. destruct (rl_cur r); [exact H|]. cbn [rl_pending].
    apply rl_iter_pending. exact H.
  Qed.

  (* ------------------------------------------------------------------ *)
  (* all finite histories, from any pair of related states *)
  Definition side (ops : list hop) (r : rl) : Prop :=
    compat = true \/ (no_load ops = true /\ rl_pending r = None).

  Lemma side_step ops r : side ops r -> rl_pending r = None \/ compat = true.
  Proof. intros [H|[_ H]]; auto. Qed.

  Theorem sim_run : forall ops l r sm sr hi,
    sim l r -> Forall2 sd_ok sm sr -> wf_from hi (length sm) ops = true -> side ops r ->
    map strip_state (run_history p restart ops l sm) = ref_hist_from p restart look ops r sr /\
    (sim (fst (run_final p restart ops l sm)) (fst (ref_final p restart look ops r sr)) /\
     Forall2 sd_ok (snd (run_final p restart ops l sm)) (snd (ref_final p restart look ops r sr))).
  Proof.
    induction ops as [|op ops IH]; intros l r sm sr hi Hsim Hsv Hwf Hside.
    - cbn. auto.
    - destruct op; cbn [run_history ref_hist_from run_final ref_final map wf_from] in *.
      + (* iter *)
        destruct (IH (ld_iter p restart l) (rl_iter p restart look r) sm sr true) as [H1 H2]; auto.
        * apply sim_iter; auto. apply (side_step _ _ Hside).
        * destruct Hside as [H|[Ha Hb]]; [left; exact H|right]. cbn [no_load] in Ha. split; [exact Ha|].
          apply rl_iter_pending; exact Hb.
        * split; [|exact H2]. cbn [strip_state]. f_equal. exact H1.
      + (* next *)
        apply andb_prop in Hwf. destruct Hwf as [_ Hwf].
        destruct (sim_next l r Hsim) as [Ho Hs].
        destruct (IH (snd (ld_next p l)) (snd (rl_next p r)) sm sr hi) as [H1 H2]; auto.
        * destruct Hside as [H|[Ha Hb]]; [left; exact H|right]. cbn [no_load] in Ha. split; [exact Ha|].
          rewrite rl_next_pending; exact Hb.
        * destruct (ld_next p l) as [o l'], (rl_next p r) as [o' r']. cbn [fst snd] in *. subst o'.
          split; [|exact H2]. cbn [map]. rewrite strip_outcome. f_equal. exact H1.
      + (* state_dict *)
        destruct (sim_state l r Hsim (side_step _ _ Hside)) as [Ho Hs].
        pose proof (rl_state_pending r) as Hpend.
        destruct (ld_state_dict p restart l) as [s l'], (rl_state p restart look r) as [ek r'].
        cbn [fst snd] in *.
        destruct (IH l' r' (sm ++ [s]) (sr ++ [ek]) hi) as [H1 H2]; auto.
        * apply Forall2_app; auto.
        * rewrite app_length. cbn [length]. rewrite Nat.add_1_r. exact Hwf.
        * destruct Hside as [H|[Ha Hb]]; [left; exact H|right]. cbn [no_load] in Ha. auto.
        * split; [|exact H2]. cbn [map strip_state]. f_equal. exact H1.
      + (* load_state_dict *)
        apply andb_prop in Hwf. destruct Hwf as [Hi Hwf]. apply Nat.ltb_lt in Hi.
        destruct Hside as [Hc|[Ha _]]; [|cbn [no_load] in Ha; discriminate].
        destruct (IH (ld_load l (nth i sm SNone)) (rl_load r (nth i sr (0, 0))) sm sr hi) as [H1 H2]; auto.
        * apply sim_load; auto. apply Forall2_nth'; auto.
        * left; exact Hc.
        * split; [|exact H2]. cbn [strip_state]. f_equal. exact H1.
      + (* new Loader *)
        destruct (IH ld_new rl_new sm sr false) as [H1 H2]; auto.
        * apply sim_new.
        * destruct Hside as [H|[Ha Hb]]; [left; exact H|right]. cbn [no_load] in Ha. auto.
        * split; [|exact H2]. cbn [strip_state]. f_equal. exact H1.
  Qed.
End Sim.

(* ------------------------------------------------------------------ *)
(* the theorems                                                         *)
Lemma wf_from_no_load ops : no_load ops = true -> forall hi n m, wf_from hi n ops = wf_from hi m ops.
Proof.
  induction ops as [|op ops IH]; intros H hi n m; [reflexivity|].
  destruct op; cbn [no_load wf_from] in *; try discriminate; try (apply IH; exact H).
  f_equal. apply IH; exact H.
Qed.

(* general form: any reference flag [look] compatible with the pipeline; no condition at all for
   histories without load_state_dict *)
Theorem loader_refines_gen : forall p restart look ops, pipe_ok p = true -> wf_ops ops = true ->
  compat p restart look = true \/ no_load ops = true ->
  map strip_state (run_history p restart ops ld_new []) = ref_hist_from p restart look ops rl_new [].
Proof.
  intros p restart look ops Hok Hwf Hs.
  apply (sim_run p restart look Hok ops ld_new rl_new [] [] false).
  - apply sim_new.
  - constructor.
  - exact Hwf.
  - destruct Hs as [H|H]; [left; exact H|right; split; [exact H|reflexivity]].
Qed.

Theorem saved_positions_gen : forall p restart look ops, pipe_ok p = true -> wf_ops ops = true ->
  compat p restart look = true \/ no_load ops = true ->
  Forall2 (sd_ok p) (snd (run_final p restart ops ld_new [])) (snd (ref_final p restart look ops rl_new [])).
Proof.
  intros p restart look ops Hok Hwf Hs.
  apply (sim_run p restart look Hok ops ld_new rl_new [] [] false).
  - apply sim_new.
  - constructor.
  - exact Hwf.
  - destruct Hs as [H|H]; [left; exact H|right; split; [exact H|reflexivity]].
Qed.

(* The reference's flag after a resume, LOOK := restart, is the model's when: the look-ahead runs
   (restart = true), or the epoch number is irrelevant (no sampler), or restoring a state dict pulls
   nothing from the sources (no Unbatcher / Prefetcher / ParallelMapper).  See the counterexamples
   below for the remaining case. *)
Definition faithful_ok (p : pipe) (restart : bool) : bool := restart || no_sampler p || lazy_resume p.

Lemma faithful_compat p restart : faithful_ok p restart = true -> compat p restart restart = true.
Proof.
  unfold faithful_ok, compat. rewrite Bool.eqb_reflx.
  destruct restart, (no_sampler p), (lazy_resume p); cbn; auto.
Qed.

(* (A1) *)
Theorem loader_refines_ref : forall p restart ops, pipe_ok p = true -> wf_ops ops = true ->
  faithful_ok p restart = true ->
  map strip_state (run_history p restart ops ld_new []) = ref_history p restart ops.
Proof.
  intros p restart ops Hok Hwf Hf. apply loader_refines_gen; auto. left. apply faithful_compat; exact Hf.
Qed.

(* (A1), restart_on_stop_iteration = True: every pipeline *)
Corollary loader_refines_ref_restart : forall p ops, pipe_ok p = true -> wf_ops ops = true ->
  map strip_state (run_history p true ops ld_new []) = ref_history p true ops.
Proof. intros. apply loader_refines_ref; auto. Qed.

(* (A1), histories without load_state_dict: every pipeline, both values of restart *)
Corollary loader_refines_ref_no_load : forall p restart ops, pipe_ok p = true -> wf_ops ops = true ->
  no_load ops = true ->
  map strip_state (run_history p restart ops ld_new []) = ref_history p restart ops.
Proof. intros. apply loader_refines_gen; auto. Qed.

(* (A2) *)
Theorem loader_refines_ideal_ref : forall p restart ops, pipe_ok p = true -> wf_ops ops = true ->
  no_sampler p = true ->
  map strip_state (run_history p restart ops ld_new []) = ideal_ref_history p restart ops.
Proof.
  intros p restart ops Hok Hwf Hn. apply loader_refines_gen; auto. left. unfold compat. now rewrite Hn.
Qed.

(* (A1) is FALSE without [faithful_ok]: restart = false, a sampler below a node whose restore pulls
   from its source (the pulled sampler counts as "started", so the next iter() without any next()
   in between moves to the next epoch, while the reference stays in the resumed epoch) *)
Definition cex_sampler : pipe := PSampler [map INat [1; 2; 3]; map INat [6; 5; 4]].
Example loader_refines_ref_cex_unbatch :
  map strip_state (run_history (PUnbatch (PBatch 2 false cex_sampler)) false
                     [HState; HLoad 0; HIter; HIter; HNext] ld_new [])
  <> ref_history (PUnbatch (PBatch 2 false cex_sampler)) false [HState; HLoad 0; HIter; HIter; HNext].
Proof. vm_compute. discriminate. Qed.
Example loader_refines_ref_cex_prefetch :
  map strip_state (run_history (PPrefetch 0 cex_sampler) false
                     [HIter; HNext; HState; HLoad 0; HIter; HIter; HNext] ld_new [])
  <> ref_history (PPrefetch 0 cex_sampler) false [HIter; HNext; HState; HLoad 0; HIter; HIter; HNext].
Proof. vm_compute. discriminate. Qed.
(* ... and the IDEAL reference is not refined by pipelines with a sampler when restart = true *)
Example loader_refines_ideal_ref_cex :
  map strip_state (run_history cex_sampler true [HIter; HNext; HState; HLoad 0; HIter; HIter; HNext] ld_new [])
  <> ideal_ref_history cex_sampler true [HIter; HNext; HState; HLoad 0; HIter; HIter; HNext].
Proof. vm_compute. discriminate. Qed.

(* ------------------------------------------------------------------ *)
(* (A3) state_dict() on a loader without iterator consumes nothing, and the following iter()
   does not start a second time *)
Lemma ref_hist_no_load p restart look ops : no_load ops = true -> forall r s1 s2,
  ref_hist_from p restart look ops r s1 = ref_hist_from p restart look ops r s2.
Proof.
  induction ops as [|op ops IH]; intros H r s1 s2; [reflexivity|].
  destruct op; cbn [no_load ref_hist_from] in *; try discriminate.
  - f_equal. apply IH; exact H.
  - destruct (rl_next p r) as [o r']. f_equal. apply IH; exact H.
  - destruct (rl_state p restart look r) as [ek r']. f_equal. apply IH; exact H.
  - f_equal. apply IH; exact H.
Qed.

(* general form: whatever follows (iter / next / state_dict / new Loader) *)
Theorem state_dict_before_iter_free_gen : forall p restart rest, pipe_ok p = true ->
  no_load rest = true -> wf_from true 0 rest = true ->
  map strip_state (run_history p restart (HState :: HIter :: rest) ld_new []) =
  OS "state" :: map strip_state (run_history p restart (HIter :: rest) ld_new []).
Proof.
  intros p restart rest Hok Hnl Hwf.
  rewrite (loader_refines_gen p restart restart (HState :: HIter :: rest) Hok); [| |right; exact Hnl].
  - rewrite (loader_refines_gen p restart restart (HIter :: rest) Hok); [|exact Hwf|right; exact Hnl].
    cbn. f_equal. f_equal. apply ref_hist_no_load. exact Hnl.
  - unfold wf_ops. cbn [wf_from]. rewrite (wf_from_no_load rest Hnl true 1 0). exact Hwf.
Qed.

Lemma wf_nexts n m : wf_from true m (repeat HNext n) = true.
Proof. induction n; cbn; auto. Qed.
Lemma no_load_nexts n : no_load (repeat HNext n) = true.
Proof. induction n; cbn; auto. Qed.

Theorem state_dict_before_iter_free : forall p restart n, pipe_ok p = true ->
  map strip_state (run_history p restart (HState :: HIter :: repeat HNext n) ld_new []) =
  OS "state" :: map strip_state (run_history p restart (HIter :: repeat HNext n) ld_new []).
Proof.
  intros. apply state_dict_before_iter_free_gen; auto using wf_nexts, no_load_nexts.
Qed.

(* ... and explicitly: the n next() calls deliver the first epoch from its first item *)
Fixpoint ref_nexts (l : list item) (n : nat) : list obs :=
  match n with
  | 0 => []
  | S n' => match l with
            | x :: l' => obs_of_outcome (OItem x) :: ref_nexts l' n'
            | [] => OS "stop" :: ref_nexts [] n'
            end
  end.

Lemma ref_hist_nexts p restart look : forall n e k req pend fsd saved,
  ref_hist_from p restart look (repeat HNext n)
    {| rl_cur := Some (e, k, req); rl_pending := pend; rl_for_sd := fsd |} saved
  = ref_nexts (skipn k (sem p e)) n.
Proof.
  induction n as [|n IH]; intros e k req pend fsd saved; [reflexivity|].
  cbn [repeat ref_hist_from]. unfold rl_next. cbn [rl_cur rl_pending rl_for_sd].
  destruct (nth_error (sem p e) k) as [x|] eqn:E.
  - rewrite (skipn_S_nth _ _ _ E). cbn [ref_nexts]. f_equal. apply IH.
  - rewrite IH. rewrite (nth_error_None_skipn _ _ E). reflexivity.
Qed.

Theorem state_dict_before_iter_starts_at_0 : forall p restart n, pipe_ok p = true ->
  map strip_state (run_history p restart (HState :: HIter :: repeat HNext n) ld_new []) =
  OS "state" :: OS "iter" :: ref_nexts (sem p 0) n.
Proof.
  intros p restart n Hok.
  rewrite (loader_refines_gen p restart restart _ Hok); [| |right; apply (no_load_nexts n)].
  - cbn [ref_hist_from]. cbn [rl_state rl_iter rl_new rl_cur rl_pending rl_for_sd rl_pos fst snd].
    f_equal. f_equal. apply (ref_hist_nexts p restart restart n 0 0).
  - unfold wf_ops. cbn [wf_from]. apply wf_nexts.
Qed.

(* ------------------------------------------------------------------ *)
(* (A4) every state dict saved anywhere in any history denotes the reference position (e, k) at
   which it was taken (cursor BEFORE the look-ahead cache): loaded into a NEW loader it resumes
   exactly there *)
Lemma Forall2_nth_error {A B} (R : A -> B -> Prop) l1 l2 i a b :
  Forall2 R l1 l2 -> nth_error l1 i = Some a -> nth_error l2 i = Some b -> R a b.
Proof.
  intros H. revert i. induction H; intros i Ha Hb; destruct i; cbn in *; try discriminate.
  - congruence.
  - eapply IHForall2; eauto.
Qed.

Theorem saved_states_positions : forall p restart ops, pipe_ok p = true -> wf_ops ops = true ->
  faithful_ok p restart = true \/ no_load ops = true ->
  Forall2 (sd_ok p) (saved_states p restart ops) (ref_positions p restart ops).
Proof.
  intros p restart ops Hok Hwf Hs. apply saved_positions_gen; auto.
  destruct Hs as [H|H]; [left; apply faithful_compat; exact H|right; exact H].
Qed.

(* what [sd_ok] gives: the shape of the state dict, its counter, and the resume behaviour *)
Lemma sd_ok_num_yielded p s e k : sd_ok p s (e, k) -> sd_field s "num_yielded" = SNat k.
Proof. intros (c & -> & _). reflexivity. Qed.

Lemma sd_ok_resume_mid p s e k restart' : pipe_ok p = true -> sd_ok p s (e, k) ->
  k < length (sem p e) ->
  ld_drain p (FUEL p) (ld_iter p restart' (ld_load ld_new s)) = (skipn k (sem p e), true).
Proof.
  intros Hok (c & -> & HS & _) Hk. cbn [fst snd] in *. unfold mk_sd.
  pose proof (good_all p Hok) as G. destruct (HS RUninit) as (b' & H3).
  destruct restart'.
  - rewrite ld_iter_load_restart.
    destruct (state_Rep p e k b' _ Hok H3) as [H4 _].
    destruct (node_state p (node_reset p RUninit (Some c))) as [c' r1]. cbn [snd] in H4.
    rewrite (node_next_Rep _ _ _ _ _ H4).
    destruct (g_next p G _ _ _ _ H4) as (r2 & H5 & H6). rewrite H5.
    destruct (nth_error (sem p e) k) as [x|] eqn:E; [|apply nth_error_None in E; lia].
    cbn [outc]. rewrite (adv_some _ _ _ E) in H6.
    unfold FUEL. cbn [ld_drain]. unfold ld_next at 1, li_next. cbn [ld_it li_cached_item li_root
      li_cached_sd li_num_yielded ld_iter_for_sd ld_next_sd].
    fold (Lshape r2 (S k) false).
    pose proof (sem_fuel p e Hok).
    rewrite (ld_drain_Rep p G e false (pipe_fuel p) (S k) true r2 (S k) H6 ltac:(lia)).
    now rewrite (skipn_S_nth _ _ _ E).
  - rewrite ld_iter_load_norestart. apply (ld_drain_FUEL p e k b' _ _ _ Hok H3).
Qed.

Lemma sd_ok_resume_end_restart p s e : pipe_ok p = true -> sd_ok p s (e, length (sem p e)) ->
  ld_drain p (FUEL p) (ld_iter p true (ld_load ld_new s)) = (sem p (S e), true).
Proof.
  intros Hok (c & -> & HS & _). cbn [fst snd] in *. unfold mk_sd. set (k := length (sem p e)) in *.
  pose proof (good_all p Hok) as G. destruct (HS RUninit) as (b' & H3).
  rewrite ld_iter_load_restart.
  destruct (state_Rep p e k b' _ Hok H3) as [H4 _].
  destruct (node_state p (node_reset p RUninit (Some c))) as [c' r1]. cbn [snd] in H4.
  rewrite (node_next_Rep _ _ _ _ _ H4).
  destruct (g_next p G _ _ _ _ H4) as (r2 & H5 & H6). rewrite H5.
  assert (E : nth_error (sem p e) k = None) by (apply nth_error_None; unfold k; lia).
  rewrite E in *. cbn [outc]. rewrite (adv_none _ _ E) in H6.
  apply (ld_drain_FUEL p (S e) 0 false _ _ _ Hok (Rep_next_epoch p e k r2 G H6)).
Qed.

Lemma sd_ok_resume_end_norestart p s e : pipe_ok p = true -> sd_ok p s (e, length (sem p e)) ->
  ld_drain p (FUEL p) (ld_iter p false (ld_load ld_new s)) = ([], true).
Proof.
  intros Hok (c & -> & HS & _). cbn [fst snd] in *. unfold mk_sd.
  destruct (HS RUninit) as (b' & H3).
  rewrite ld_iter_load_norestart. rewrite (ld_drain_FUEL p e _ b' _ _ _ Hok H3).
  now rewrite skipn_all.
Qed.

Theorem saved_state_is_position : forall p restart restart' ops i s e k,
  pipe_ok p = true -> wf_ops ops = true -> faithful_ok p restart = true \/ no_load ops = true ->
  nth_error (saved_states p restart ops) i = Some s ->
  nth_error (ref_positions p restart ops) i = Some (e, k) ->
  k <= length (sem p e) /\ sd_field s "num_yielded" = SNat k /\
  (k < length (sem p e) ->
   ld_drain p (FUEL p) (ld_iter p restart' (ld_load ld_new s)) = (skipn k (sem p e), true)) /\
  (k = length (sem p e) ->
   ld_drain p (FUEL p) (ld_iter p true (ld_load ld_new s)) = (sem p (S e), true) /\
   ld_drain p (FUEL p) (ld_iter p false (ld_load ld_new s)) = ([], true)).
Proof.
  intros p restart restart' ops i s e k Hok Hwf Hs H1 H2.
  pose proof (Forall2_nth_error _ _ _ _ _ _ (saved_states_positions p restart ops Hok Hwf Hs) H1 H2) as H.
  split; [destruct H as (c & _ & _ & Hk); exact Hk|].
  split; [eapply sd_ok_num_yielded; eauto|]. split.
  - intros Hk. apply sd_ok_resume_mid; auto.
  - intros ->. split; [apply (sd_ok_resume_end_restart p s e)|apply (sd_ok_resume_end_norestart p s e)]; auto.
Qed.

(* every HState of the history has a position: the two lists have the same length *)
Corollary saved_states_length : forall p restart ops, pipe_ok p = true -> wf_ops ops = true ->
  faithful_ok p restart = true \/ no_load ops = true ->
  length (saved_states p restart ops) = length (ref_positions p restart ops).
Proof.
  intros p restart ops Hok Hwf Hs. pose proof (saved_states_positions p restart ops Hok Hwf Hs) as H.
  induction H; cbn [length]; congruence.
Qed.

(* ------------------------------------------------------------------ *)
(* Remarks.
   - Reference operations: [rl_iter], [rl_next], [rl_state], [rl_load]; a new Loader is [rl_new].
     The cursor of the reference is the position BEFORE the look-ahead cache: when
     li_cached_item = Some x the root node is one item ahead ([it_ok]), li_cached_sd is the state
     dict of the cursor position and li_num_yielded is cursor + 1.
   - (A1) as first stated (for all p and restart, LOOK := restart) is false: see
     [loader_refines_ref_cex_unbatch] / [loader_refines_ref_cex_prefetch].  With restart = false no
     look-ahead runs, but restoring an Unbatcher / Prefetcher / ParallelMapper pulls from its source,
     so a sampler below it has "started" and the next iter() WITHOUT any next() in between moves to
     epoch e+1 (the reference: stays in e).  For Prefetcher / ParallelMapper whether the restore pulls
     depends on steps_since_snapshot of the particular state dict, so no choice of LOOK that is a
     function of (p, restart) is exact; the reference is kept and the hypothesis [faithful_ok] added.
     [faithful_ok] holds whenever restart = true, or p has no sampler, or p has no
     Unbatcher / Prefetcher / ParallelMapper; and no hypothesis is needed for histories without
     load_state_dict ([loader_refines_ref_no_load]).
   - [sim_run] uses of [wf_ops] only that every HLoad refers to an existing saved state; a next()
     without iterator gives "err:no iterator" in both the model and the reference.
   - [pipe_ok] (batch_size > 0) as in NodeResumeProofs. *)

Print Assumptions loader_refines_gen.
Print Assumptions loader_refines_ref.
Print Assumptions loader_refines_ref_restart.
Print Assumptions loader_refines_ref_no_load.
Print Assumptions loader_refines_ideal_ref.
Print Assumptions state_dict_before_iter_free_gen.
Print Assumptions state_dict_before_iter_free.
Print Assumptions state_dict_before_iter_starts_at_0.
Print Assumptions saved_states_positions.
Print Assumptions saved_state_is_position.
Print Assumptions loader_refines_ref_cex_unbatch.
Print Assumptions loader_refines_ref_cex_prefetch.
Print Assumptions loader_refines_ideal_ref_cex.
