From PD Require Import Base NodeModel NodeObs NodeResumeProofs.
Open Scope string_scope.
Open Scope list_scope.
Open Scope nat_scope.
(* ApiProofs.v -- the Loader model (NodeModel.v: ld_iter / ld_next / ld_state_dict / ld_load, with the
   LoaderIterator look-ahead cache) REFINES a tiny list-based reference, for ALL finite sequences of
   API calls over {iter, next, state_dict, load_state_dict(any earlier state), new Loader}. *)

(* ------------------------------------------------------------------ *)
(* the reference                                                        *)
Record rl := {
  rl_cur : option (nat * nat * bool);   (* current iterator: epoch, cursor, "an item was requested in this epoch" *)
  rl_pending : option (nat * nat);      (* state loaded since the last iter() *)
  rl_for_sd : bool }.                   (* the iterator was created by state_dict(): the next iter() reuses it *)

Definition rl_new : rl := {| rl_cur := None; rl_pending := None; rl_for_sd := false |}.

Section Ref.
  Variable p : pipe.
  Variable restart : bool.     (* restart_on_stop_iteration *)
  Variable look : bool.        (* the "requested" flag right after resuming inside an epoch *)

  Definition rl_iter (r : rl) : rl :=
    match rl_cur r, rl_for_sd r with
    | Some _, true => {| rl_cur := rl_cur r; rl_pending := rl_pending r; rl_for_sd := false |}
    | _, _ =>
        match rl_pending r with
        | Some (e, k) =>
            {| rl_cur := Some (if restart && (length (sem p e) <=? k) then (S e, 0, false) else (e, k, look));
               rl_pending := None; rl_for_sd := rl_for_sd r |}
        | None =>
            {| rl_cur := Some (match rl_cur r with
                               | None => (0, 0, false)
                               | Some (e, _, req) => (if req then S e else e, 0, false)
                               end);
               rl_pending := None; rl_for_sd := rl_for_sd r |}
        end
    end.

  Definition rl_next (r : rl) : outcome * rl :=
    match rl_cur r with
    | None => (OErr "no iterator", r)
    | Some (e, k, _) =>
        match nth_error (sem p e) k with
        | Some x => (OItem x, {| rl_cur := Some (e, S k, true); rl_pending := rl_pending r; rl_for_sd := rl_for_sd r |})
        | None => (OStop, {| rl_cur := Some (e, k, true); rl_pending := rl_pending r; rl_for_sd := rl_for_sd r |})
        end
    end.

  Definition rl_pos (r : rl) : nat * nat :=
    match rl_cur r with Some (e, k, _) => (e, k) | None => (0, 0) end.

  Definition rl_state (r : rl) : (nat * nat) * rl :=
    let r1 := match rl_cur r with
              | None => let r' := rl_iter r in
                        {| rl_cur := rl_cur r'; rl_pending := rl_pending r'; rl_for_sd := true |}
              | Some _ => r
              end in
    (rl_pos r1, r1).

  Definition rl_load (r : rl) (ek : nat * nat) : rl :=
    {| rl_cur := rl_cur r; rl_pending := Some ek; rl_for_sd := false |}.

  (* observations of the reference; [saved] = abstract positions of the state dicts saved so far *)
  Fixpoint ref_hist_from (ops : list hop) (r : rl) (saved : list (nat * nat)) : list obs :=
    match ops with
    | [] => []
    | HIter :: t => OS "iter" :: ref_hist_from t (rl_iter r) saved
    | HNext :: t => let '(o, r') := rl_next r in obs_of_outcome o :: ref_hist_from t r' saved
    | HState :: t => let '(ek, r') := rl_state r in OS "state" :: ref_hist_from t r' (saved ++ [ek])
    | HLoad i :: t => OS "load" :: ref_hist_from t (rl_load r (nth i saved (0, 0))) saved
    | HFresh :: t => OS "fresh" :: ref_hist_from t rl_new saved
    end.

  (* final reference state and saved positions *)
  Fixpoint ref_final (ops : list hop) (r : rl) (saved : list (nat * nat)) : rl * list (nat * nat) :=
    match ops with
    | [] => (r, saved)
    | HIter :: t => ref_final t (rl_iter r) saved
    | HNext :: t => ref_final t (snd (rl_next r)) saved
    | HState :: t => let '(ek, r') := rl_state r in ref_final t r' (saved ++ [ek])
    | HLoad i :: t => ref_final t (rl_load r (nth i saved (0, 0))) saved
    | HFresh :: t => ref_final t rl_new saved
    end.
End Ref.

(* the FAITHFUL reference: the Loader's look-ahead (li_has_next, only when restart = true) pulls one item *)
Definition ref_history (p : pipe) (restart : bool) (ops : list hop) : list obs :=
  ref_hist_from p restart restart ops rl_new [].
(* the IDEAL documented reference: resuming requests nothing *)
Definition ideal_ref_history (p : pipe) (restart : bool) (ops : list hop) : list obs :=
  ref_hist_from p restart false ops rl_new [].
Definition ref_positions (p : pipe) (restart : bool) (ops : list hop) : list (nat * nat) :=
  snd (ref_final p restart restart ops rl_new []).

(* final model state and saved state dicts *)
Fixpoint run_final (p : pipe) (restart : bool) (ops : list hop) (l : loader) (saved : list sd) : loader * list sd :=
  match ops with
  | [] => (l, saved)
  | HIter :: r => run_final p restart r (ld_iter p restart l) saved
  | HNext :: r => run_final p restart r (snd (ld_next p l)) saved
  | HState :: r => let '(s, l') := ld_state_dict p restart l in run_final p restart r l' (saved ++ [s])
  | HLoad i :: r => run_final p restart r (ld_load l (nth i saved SNone)) saved
  | HFresh :: r => run_final p restart r ld_new saved
  end.
Definition saved_states (p : pipe) (restart : bool) (ops : list hop) : list sd :=
  snd (run_final p restart ops ld_new []).

Definition strip_state (o : obs) : obs :=
  match o with
  | OL [OS "state"; _] => OS "state"
  | _ => o
  end.

(* well-formed call sequences: next() only on an iterator handed out by iter() since the last new
   Loader; load_state_dict only of a state dict saved earlier *)
Fixpoint wf_from (have_it : bool) (nsaved : nat) (ops : list hop) : bool :=
  match ops with
  | [] => true
  | HIter :: t => wf_from true nsaved t
  | HNext :: t => have_it && wf_from have_it nsaved t
  | HState :: t => wf_from have_it (S nsaved) t
  | HLoad i :: t => (i <? nsaved) && wf_from have_it nsaved t
  | HFresh :: t => wf_from false nsaved t
  end.
Definition wf_ops (ops : list hop) : bool := wf_from false 0 ops.

Fixpoint no_sampler (p : pipe) : bool :=
  match p with
  | PSrc _ _ => true
  | PSampler _ => false
  | PMap _ q | PParMap _ _ q | PPrefetch _ q | PBatch _ _ q | PUnbatch q | PFilter _ q => no_sampler q
  end.
(* restoring a state dict pulls nothing from the sources *)
Fixpoint lazy_resume (p : pipe) : bool :=
  match p with
  | PSrc _ _ | PSampler _ => true
  | PMap _ q | PBatch _ _ q | PFilter _ q => lazy_resume q
  | PParMap _ _ _ | PPrefetch _ _ | PUnbatch _ => false
  end.
Fixpoint no_load (ops : list hop) : bool :=
  match ops with
  | [] => true
  | HLoad _ :: _ => false
  | _ :: t => no_load t
  end.

(* ------------------------------------------------------------------ *)
(* pipelines without a sampler: the epoch number is irrelevant           *)
Lemma sem_no_sampler p : no_sampler p = true -> forall e e', sem p e = sem p e'.
Proof.
  induction p; cbn [no_sampler sem]; intros H e e'; try discriminate; try reflexivity;
    rewrite (IHp H e e'); reflexivity.
Qed.

Lemma Rep_no_sampler p : no_sampler p = true -> forall e e' k b t, Rep p e k b t -> Rep p e' k b t.
Proof.
  induction p; cbn [no_sampler]; intros H e e' k b t HR; try discriminate.
  - exact HR.
  - destruct HR as (s & -> & HR). exists s. split; [reflexivity|]. eapply IHp; eauto.
  - rewrite Rep_parmap in *. destruct HR as (s & snap & steps & y & stopped & -> & HR & Hs & HS & Hst).
    rewrite (sem_no_sampler p H e' e).
    exists s, snap, steps, y, stopped. split; [reflexivity|]. split; [eapply IHp; eauto|]. split; [exact Hs|].
    split; [|exact Hst]. intros t0. destruct (HS t0) as (b' & Hb). exists b'. eapply IHp; eauto.
  - rewrite Rep_prefetch in *. destruct HR as (s & snap & steps & y & stopped & -> & HR & Hs & HS & Hst).
    rewrite (sem_no_sampler p H e' e).
    exists s, snap, steps, y, stopped. split; [reflexivity|]. split; [eapply IHp; eauto|]. split; [exact Hs|].
    split; [|exact Hst]. intros t0. destruct (HS t0) as (b' & Hb). exists b'. eapply IHp; eauto.
  - cbn [Rep] in *. unfold BatchInv in *. destruct HR as (s & j & -> & HR & H1 & H2).
    rewrite (sem_no_sampler p H e' e). exists s, j. split; [reflexivity|]. split; [eapply IHp; eauto|]. auto.
  - rewrite Rep_unbatch in *. destruct HR as (s & ba & idx & ca & j & -> & HR & H1 & H2 & H3).
    rewrite (sem_no_sampler p H e' e).
    assert (HS : forall j c, StRep p e j c -> StRep p e' j c).
    { intros j0 c HS t0. destruct (HS t0) as (b' & Hb). exists b'. eapply IHp; eauto. }
    exists s, ba, idx, ca, j. split; [reflexivity|]. split; [eapply IHp; eauto|]. split; [exact H1|].
    split; [exact H2|].
    destruct H3 as [(c & j0 & x & -> & -> & E & -> & HS0 & ->)|(Ex & Hor & HS0)].
    + left. exists c, j0, x. repeat split; auto.
    + right. split; [exact Ex|]. split; [exact Hor|]. destruct ca; auto.
  - cbn [Rep] in *. unfold FilInv in *. destruct HR as (s & nf & ny & j & -> & HR & H1 & H2).
    rewrite (sem_no_sampler p H e' e). exists s, nf, ny, j. split; [reflexivity|].
    split; [eapply IHp; eauto|]. auto.
Qed.

(* pipelines whose resume pulls nothing: a freshly restored node has not "started" *)
Lemma lazy_reset_flag p : lazy_resume p = true -> forall e k b t0 c,
  Rep p e k b (node_reset p t0 (Some c)) -> Rep p e k false (node_reset p t0 (Some c)).
Proof.
  induction p; cbn [lazy_resume]; intros H e k b t0 c HR; try discriminate.
  - exact HR.
  - rewrite reset_sampler in *. cbn [Rep] in *. destruct HR as [HE HL]. inversion HE; subst. auto.
  - rewrite reset_map in *. cbn [option_map] in *. destruct HR as (s & HE & HR). inversion HE; subst s.
    eexists; split; [reflexivity|]. eapply IHp; eauto.
  - rewrite reset_batch in *. cbn [option_map Rep] in *. unfold BatchInv in *.
    destruct HR as (s & j & HE & HR & H1 & H2). inversion HE; subst s.
    eexists _, j. split; [reflexivity|]. split; [eapply IHp; eauto|]. auto.
  - rewrite reset_filter in *. cbn [Rep] in *. unfold FilInv in *.
    destruct HR as (s & nf & ny & j & HE & HR & H1 & H2). inversion HE; subst s nf ny.
    eexists _, _, _, j. split; [reflexivity|]. split; [eapply IHp; eauto|]. auto.
Qed.

(* ------------------------------------------------------------------ *)
(* the simulation relation                                              *)
Definition mk_sd (c : sd) (n : nat) : sd := SD [("root", c); ("num_yielded", SNat n)].

Lemma strip_outcome o : strip_state (obs_of_outcome o) = obs_of_outcome o.
Proof. destruct o; reflexivity. Qed.

Lemma Forall2_nth' {A B} (R : A -> B -> Prop) l1 l2 d1 d2 i :
  Forall2 R l1 l2 -> i < length l1 -> R (nth i l1 d1) (nth i l2 d2).
Proof.
  intros H. revert i. induction H; intros i Hi; cbn [length] in Hi; [lia|].
  destruct i; cbn [nth]; [assumption|]. apply IHForall2. lia.
Qed.

Section Sim.
  Variable p : pipe.
  Variables restart look : bool.
  Hypothesis Hok : pipe_ok p = true.
  Let G : Good p := good_all p Hok.

  (* when the reference's choice of the "requested" flag after a resume is the model's *)
  Definition compat : bool := no_sampler p || (Bool.eqb look restart && (restart || lazy_resume p)).

  (* a saved state dict denotes reference position (e, k) *)
  Definition sd_ok (s : sd) (ek : nat * nat) : Prop :=
    exists c, s = mk_sd c (snd ek) /\ StRep p (fst ek) (snd ek) c /\ snd ek <= length (sem p (fst ek)).
  Definition flag_ok (b req : bool) : Prop := no_sampler p = true \/ b = req.
  (* LoaderIterator vs. reference cursor, look-ahead cache accounted for *)
  Definition it_ok (it : li) (e k : nat) (req : bool) : Prop :=
    match li_cached_item it with
    | None => li_cached_sd it = None /\ li_num_yielded it = k /\
              exists b, flag_ok b req /\ Rep p e k b (li_root it)
    | Some x => nth_error (sem p e) k = Some x /\ li_num_yielded it = S k /\ flag_ok true req /\
                Rep p e (S k) true (li_root it) /\
                exists c, li_cached_sd it = Some (mk_sd c k) /\ StRep p e k c
    end.
  Definition sim (l : loader) (r : rl) : Prop :=
    ld_iter_for_sd l = rl_for_sd r /\
    match ld_next_sd l, rl_pending r with
    | None, None => True
    | Some s, Some ek => sd_ok s ek
    | _, _ => False
    end /\
    match ld_it l, rl_cur r with
    | None, None => True
    | Some it, Some (e, k, req) => it_ok it e k req
    | _, _ => False
    end.

  Lemma sim_new : sim ld_new rl_new.
  Proof. unfold sim. cbn. auto. Qed.

  (* --- LoaderIterator level --- *)
  Lemma it_ok_Rep it e k req : it_ok it e k req ->
    exists k' b, flag_ok b req /\ Rep p e k' b (li_root it).
  Proof.
    unfold it_ok. destruct (li_cached_item it).
    - intros (_ & _ & Hf & HR & _). eauto.
    - intros (_ & _ & b & Hf & HR). eauto.
  Qed.

  Lemma reset_none_ok it e k req : it_ok it e k req ->
    it_ok (li_reset p it None) (if req then S e else e) 0 false.
  Proof.
    intros H. destruct (it_ok_Rep _ _ _ _ H) as (k' & b & Hf & HR).
    unfold it_ok, li_reset. cbn [li_cached_item li_cached_sd li_num_yielded li_root].
    split; [reflexivity|]. split; [reflexivity|]. exists false. split; [right; reflexivity|].
    assert (H0 : Rep p (if b then S e else e) 0 false (node_reset p (li_root it) None)).
    { apply (g_reset p G). right. exists e, k', b. auto. }
    destruct Hf as [Hn| ->]; [|exact H0]. eapply Rep_no_sampler; eauto.
  Qed.

  Lemma reset_new_ok : it_ok (li_reset p li_new None) 0 0 false.
  Proof.
    unfold it_ok, li_reset, li_new. cbn [li_cached_item li_cached_sd li_num_yielded li_root].
    split; [reflexivity|]. split; [reflexivity|]. exists false. split; [right; reflexivity|].
    apply Rep_init. exact G.
  Qed.

  Lemma reset_some_eq it c n :
    li_reset p it (Some (mk_sd c n)) =
    {| li_root := node_reset p (li_root it) (Some c); li_cached_item := None; li_cached_sd := None;
       li_num_yielded := n |}.
  Proof. reflexivity. Qed.

  Lemma has_next_spec root n e k b : Rep p e k b root ->
    match nth_error (sem p e) k with
    | Some x => exists c r',
        li_has_next p {| li_root := root; li_cached_item := None; li_cached_sd := None; li_num_yielded := n |}
        = (true, {| li_root := r'; li_cached_item := Some x; li_cached_sd := Some (mk_sd c n);
                    li_num_yielded := S n |})
        /\ StRep p e k c /\ Rep p e (S k) true r'
    | None => exists c r',
        li_has_next p {| li_root := root; li_cached_item := None; li_cached_sd := None; li_num_yielded := n |}
        = (false, {| li_root := r'; li_cached_item := None; li_cached_sd := Some (mk_sd c n);
                     li_num_yielded := n |})
        /\ Rep p e k true r'
    end.
  Proof.
    intros HR. unfold li_has_next, li_get_state, li_next.
    cbn [li_cached_item li_cached_sd li_num_yielded li_root].
    destruct (state_Rep p e k b root Hok HR) as [H1 H2].
    destruct (node_state p root) as [c r1]. cbn [fst snd] in *.
    cbn [li_cached_item li_cached_sd li_num_yielded li_root].
    rewrite (node_next_Rep _ _ _ _ _ H1).
    destruct (g_next p G _ _ _ _ H1) as (r2 & H3 & H4). rewrite H3.
    destruct (nth_error (sem p e) k) as [x|] eqn:E; cbn [outc].
    - rewrite (adv_some _ _ _ E) in H4. exists c, r2.
      cbn [li_cached_item li_cached_sd li_num_yielded li_root]. auto.
    - rewrite (adv_none _ _ E) in H4. exists c, r2. auto.
  Qed.

  Lemma next_ok it e k req : it_ok it e k req ->
    fst (li_next p it) = outc (nth_error (sem p e) k) /\
    it_ok (snd (li_next p it)) e (adv k (sem p e)) true.
  Proof.
    unfold it_ok, li_next. destruct (li_cached_item it) as [x|].
    - intros (E & Hn & Hf & HR & c & Hc & HS). cbn [fst snd li_cached_item li_cached_sd li_num_yielded li_root].
      rewrite E, (adv_some _ _ _ E). split; [reflexivity|]. split; [reflexivity|]. split; [exact Hn|].
      exists true. split; [right; reflexivity|exact HR].
    - intros (Hc & Hn & b & Hf & HR). rewrite (node_next_Rep _ _ _ _ _ HR).
      destruct (g_next p G _ _ _ _ HR) as (r2 & H3 & H4). rewrite H3.
      destruct (nth_error (sem p e) k) as [x|] eqn:E; cbn [outc fst snd li_cached_item li_cached_sd li_num_yielded li_root].
      + rewrite (adv_some _ _ _ E) in *. split; [reflexivity|]. split; [exact Hc|]. split; [congruence|].
        exists true. split; [right; reflexivity|exact H4].
      + rewrite (adv_none _ _ E) in *. split; [reflexivity|]. split; [exact Hc|]. split; [exact Hn|].
        exists true. split; [right; reflexivity|exact H4].
  Qed.

  Lemma state_ok it e k req : it_ok it e k req ->
    sd_ok (fst (li_get_state p it)) (e, k) /\ it_ok (snd (li_get_state p it)) e k req.
  Proof.
    intros H. pose proof H as H'. revert H. unfold it_ok at 1, li_get_state.
    destruct (li_cached_item it) as [x|] eqn:Ei.
    - intros (E & Hn & Hf & HR & c & Hc & HS). rewrite Hc. cbn [fst snd]. split; [|exact H'].
      exists c. cbn [fst snd]. split; [reflexivity|]. split; [exact HS|].
      apply nth_error_Some_lt in E. lia.
    - intros (Hc & Hn & b & Hf & HR). rewrite Hc.
      destruct (state_Rep p e k b _ Hok HR) as [H1 H2].
      destruct (node_state p (li_root it)) as [c r1]. cbn [fst snd] in *. split.
      + exists c. cbn [fst snd]. rewrite Hn. split; [reflexivity|]. split; [exact H2|].
        eapply g_len; eauto.
      + unfold it_ok. cbn [li_cached_item li_cached_sd li_num_yielded li_root].
        split; [reflexivity|]. split; [exact Hn|]. exists b. auto.
  Qed.

  (* the resume branch of ld_iter and of the reference *)
  Definition resume_it (it : li) (s : sd) : li :=
    let it1 := li_reset p it (Some s) in
    if restart then let '(h, it1') := li_has_next p it1 in if h then it1' else li_reset p it1' None
    else it1.
  Definition rl_resume (e k : nat) : nat * nat * bool :=
    if restart && (length (sem p e) <=? k) then (S e, 0, false) else (e, k, look).

  Lemma resume_ok it s e k : sd_ok s (e, k) -> compat = true ->
    match rl_resume e k with (e', k', req') => it_ok (resume_it it s) e' k' req' end.
  Proof.
    intros (c & -> & HS & Hk) Hc. cbn [fst snd] in *. unfold resume_it, rl_resume.
    rewrite reset_some_eq. destruct (HS (li_root it)) as (b' & Hb).
    unfold compat in Hc. destruct restart; cbn [andb].
    - pose proof (has_next_spec _ k _ _ _ Hb) as HN.
      destruct (nth_error (sem p e) k) as [x|] eqn:E.
      + destruct HN as (c' & r' & -> & HS' & HR').
        apply nth_error_Some_lt in E as Hlt. rewrite (proj2 (Nat.leb_gt _ _)) by lia.
        unfold it_ok. cbn [li_cached_item li_cached_sd li_num_yielded li_root].
        split; [exact E|]. split; [reflexivity|]. split.
        * unfold flag_ok. destruct (no_sampler p); [left; reflexivity|right]. cbn [orb andb] in Hc.
          destruct look; [reflexivity|discriminate].
        * split; [exact HR'|]. exists c'. auto.
      + destruct HN as (c' & r' & -> & HR').
        apply nth_error_None in E. rewrite (proj2 (Nat.leb_le _ _)) by lia.
        unfold it_ok, li_reset. cbn [li_cached_item li_cached_sd li_num_yielded li_root].
        split; [reflexivity|]. split; [reflexivity|]. exists false. split; [right; reflexivity|].
        apply (Rep_next_epoch p e k r' G HR').
    - unfold it_ok. cbn [li_cached_item li_cached_sd li_num_yielded li_root].
      split; [reflexivity|]. split; [reflexivity|].
      unfold flag_ok. destruct (no_sampler p) eqn:En.
      + exists b'. split; [left; reflexivity|exact Hb].
      + cbn [orb andb] in Hc. destruct look; [discriminate|]. cbn in Hc.
        exists false. split; [right; reflexivity|]. eapply lazy_reset_flag; eauto.
  Qed.
End Sim.
