(* SdlIterScope.v — shared definitions of the small-scope (finite-domain) theorems about iterable datasets. *)
From Coq Require Import List Arith Bool Lia.
From PD Require Import Base SdlModel.
Import ListNotations.
Open Scope nat_scope.

Fixpoint all_lists (alphabet : list nat) (n : nat) : list (list nat) :=
  match n with 0 => [[]] | S n' => flat_map (fun l => map (fun a => a :: l) alphabet) (all_lists alphabet n') end.

Fixpoint leqb (a b : list nat) : bool := match a, b with [], [] => true | x :: a', y :: b' => (x =? y) && leqb a' b' | _, _ => false end.
Definition oeqb (a b : outcome) : bool := match a, b with OBatch x, OBatch y => leqb x y | OStop, OStop => true | _, _ => false end.
Fixpoint loeqb (a b : list outcome) : bool := match a, b with [], [] => true | x :: a', y :: b' => oeqb x y && loeqb a' b' | _, _ => false end.

Lemma leqb_eq a : forall b, leqb a b = true -> a = b.
Proof. induction a as [|x a IH]; intros [|y b] H; cbn in H; try discriminate; [reflexivity|]. apply andb_true_iff in H as [H1 H2]. apply Nat.eqb_eq in H1. f_equal; auto. Qed.
Lemma oeqb_eq a b : oeqb a b = true -> a = b.
Proof. destruct a, b; cbn; intros H; try discriminate; [f_equal; apply leqb_eq, H | reflexivity]. Qed.
Lemma loeqb_eq a : forall b, loeqb a b = true -> a = b.
Proof. induction a as [|x a IH]; intros [|y b] H; cbn in H; try discriminate; [reflexivity|]. apply andb_true_iff in H as [H1 H2]. f_equal; [apply oeqb_eq, H1 | apply IH, H2]. Qed.

