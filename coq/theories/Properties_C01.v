(* Properties_C01.v — C01: a checkpoint at any batch resumes the exact remaining stream (StatefulDataLoader).
   Model: SdlModel.v (multi-process iterator, state_dict, construction from a state dict), proofs: SdlMapProofs.v. *)
From PD Require Import Base SdlModel SdlObs SdlMapProofs SdlIterWorker SdlIterScope SdlIterSmall2 SdlIterRef SdlIterProofs SdlIterResume.
Open Scope list_scope. Open Scope nat_scope.

(* map-style datasets, PROVED: for every configuration (num_workers > 0, prefetch_factor > 0, ANY snapshot interval, any
   batch sampler output), every interruption point k, EVERY arrival schedule of the interrupted run and EVERY arrival
   schedule of the resumed run: state_dict() after k batches, loaded into a new iterator, yields exactly batches
   k, k+1, ..., then StopIteration. (No failing indices: errors are C10's subject.) *)
Theorem C01_map_resume_exact : forall c, c_kind c = KMap -> 0 < c_W c -> 0 < c_P c -> c_bad c = [] ->
  forall k sched1 sched2, k <= LL c ->
  let '(sk, _) := replay c k (sdl_fresh c) sched1 in
  let '(sr, sched') := sdl_resume c (state_dict sk) sched2 in
  outcomes c (S (LL c - k)) sr sched' = map (want c) (seq k (LL c - k)) ++ [OStop].
Proof. exact map_resume_exact. Qed.
Print Assumptions C01_map_resume_exact.

(* chains of any length: k1 batches, checkpoint+resume, k2 batches, checkpoint+resume, ... — still exact *)
Theorem C01_map_resume_chain : forall c, c_kind c = KMap -> 0 < c_W c -> 0 < c_P c -> c_bad c = [] ->
  forall ks sched, fold_right Nat.add 0 ks <= LL c ->
  let '(s, sched') := chain c ks (sdl_fresh c) sched in
  let p := fold_right Nat.add 0 ks in
  outcomes c (S (LL c - p)) s sched' = map (want c) (seq p (LL c - p)) ++ [OStop].
Proof. exact map_resume_chain. Qed.
Print Assumptions C01_map_resume_chain.

(* the inductive step behind it: resuming from ANY good state gives a good state at the same absolute position *)
Theorem C01_map_resume_preserves_position : forall c, c_kind c = KMap -> 0 < c_W c -> 0 < c_P c -> c_bad c = [] ->
  forall off c0 k s sched, Good c off c0 k s ->
  exists sr sched' B c0', sdl_resume c (state_dict s) sched = (sr, sched') /\ Good c B c0' (off + k - B) sr /\ off <= B <= off + k.
Proof. exact resume_good. Qed.
Print Assumptions C01_map_resume_preserves_position.

(* iterable datasets (worker-side dataset state, retirement of exhausted workers, fast-forward of stateless datasets): the
   FULL statement is the target; it is proved below for snapshot intervals 0 and 1 (the default) and, for every interval, for the main-process side;
   the rest is decided on every run by lockstep correspondence with real
   worker processes under scheduled arrival plus the direct oracle resumed = uninterrupted suffix. *)
Definition C01_iter_statement : Prop :=
  forall c, c_kind c = KIter -> 0 < c_W c -> 0 < c_P c -> length (c_shards c) = c_W c -> c_bad c = [] -> c_stateful c = true ->
  forall k sched1 sched2, k <= length (reference c) ->
  let '(sk, _) := replay c k (sdl_fresh c) sched1 in
  let '(sr, sched') := sdl_resume c (state_dict sk) sched2 in
  outcomes c (S (length (reference c) - k)) sr sched' = map OBatch (skipn k (reference c)) ++ [OStop].

(* iterable datasets, PROVED for every configuration with snapshot_every_n_steps = 0 (the state dict is then the initial snapshot
   plus the number of steps): a checkpoint at ANY batch k, under EVERY arrival schedule of the interrupted run and EVERY arrival
   schedule of the resumed run, resumes exactly batches k, k+1, ... then StopIteration (SdlIterResume.v) *)
Theorem C01_iter_resume_exact_no_snapshots : forall c, c_kind c = KIter -> 0 < c_W c -> 0 < c_P c -> c_stateful c = true -> c_I c = 0 ->
  forall k sched1 sched2, k <= length (reference c) ->
  let '(sk, _) := replay c k (sdl_fresh c) sched1 in
  let '(sr, sched') := sdl_resume c (state_dict sk) sched2 in
  outcomes c (S (length (reference c) - k)) sr sched' = map OBatch (skipn k (reference c)) ++ [OStop].
Proof. exact iter_resume_exact_I0. Qed.
Print Assumptions C01_iter_resume_exact_no_snapshots.

(* iterable datasets, PROVED for every configuration with snapshot_every_n_steps = 1 — the DEFAULT: every batch takes a snapshot, every
   task asks its worker for its state.  A checkpoint at ANY batch k, under EVERY arrival schedule of the interrupted run and EVERY
   arrival schedule of the resumed run, resumes exactly batches k, k+1, ... then StopIteration.  (SdlIterResume.v: the worker
   entries written at the last hand-out are exact — each is the worker's state after all its tasks before the slot that follows
   the handed-out one, `entry_exact`; the remaining stream read from that slot is the walk the resumed iterator performs,
   `walk_rest` + `refsuf_canon`; the main-process side is `C01_iter_resume_main_exact`.) *)
Theorem C01_iter_resume_exact_every_step : forall c, c_kind c = KIter -> 0 < c_W c -> 0 < c_P c -> c_stateful c = true -> c_I c = 1 ->
  forall k sched1 sched2, k <= length (reference c) ->
  let '(sk, _) := replay c k (sdl_fresh c) sched1 in
  let '(sr, sched') := sdl_resume c (state_dict sk) sched2 in
  outcomes c (S (length (reference c) - k)) sr sched' = map OBatch (skipn k (reference c)) ++ [OStop].
Proof. exact iter_resume_exact_I1. Qed.
Print Assumptions C01_iter_resume_exact_every_step.

(* ... and any finite CHAIN of checkpoint/resume (k1 batches, checkpoint + resume, k2 batches, checkpoint + resume, ...), every arrival
   schedule throughout: the iterator built from a state dict is again a good state of the same family (invariant Good1: all five
   invariants plus a snapshot that names the slot the remaining stream starts from, with exact worker entries), so the argument
   iterates (SdlIterResume.v: start_good, step_good, resume_good, chain_good) *)
Theorem C01_iter_resume_chain_every_step : forall c, c_kind c = KIter -> 0 < c_W c -> 0 < c_P c -> c_stateful c = true -> c_I c = 1 ->
  forall ks sched, fold_right Nat.add 0 ks <= length (reference c) ->
  let '(s, sched') := chain c ks (sdl_fresh c) sched in
  let p := fold_right Nat.add 0 ks in
  outcomes c (S (length (reference c) - p)) s sched' = map OBatch (skipn p (reference c)) ++ [OStop].
Proof. exact iter_resume_chain_I1. Qed.
Print Assumptions C01_iter_resume_chain_every_step.

(* the same for iterable datasets WITHOUT a state of their own (the FAST-FORWARD path of a resume: fresh workers, the batches of the
   snapshot step replayed under any arrival schedule, the last-yielded-worker cross-check — shown to pass: two walks that leave the
   same remaining stream stand at the same slot, `pointer_unique` / `last_worker_unique`), snapshot_every_n_steps = 1, any chain *)
Theorem C01_iter_resume_chain_every_step_fast_forward : forall c, c_kind c = KIter -> 0 < c_W c -> 0 < c_P c -> c_stateful c = false -> c_I c = 1 ->
  forall ks sched, fold_right Nat.add 0 ks <= length (reference c) ->
  let '(s, sched') := chain c ks (sdl_fresh c) sched in
  let p := fold_right Nat.add 0 ks in
  outcomes c (S (length (reference c) - p)) s sched' = map OBatch (skipn p (reference c)) ++ [OStop].
Proof. exact iter_resume_chain_I1_ff. Qed.
Print Assumptions C01_iter_resume_chain_every_step_fast_forward.

(* hence: iterable datasets of either kind at the DEFAULT snapshot interval — any chain of checkpoint/resume is exact *)
Theorem C01_iter_resume_chain_default_interval : forall c, c_kind c = KIter -> 0 < c_W c -> 0 < c_P c -> c_I c = 1 ->
  forall ks sched, fold_right Nat.add 0 ks <= length (reference c) ->
  let '(s, sched') := chain c ks (sdl_fresh c) sched in
  let p := fold_right Nat.add 0 ks in
  outcomes c (S (length (reference c) - p)) s sched' = map OBatch (skipn p (reference c)) ++ [OStop].
Proof. exact iter_resume_chain_default. Qed.
Print Assumptions C01_iter_resume_chain_default_interval.

(* snapshot_every_n_steps = 0, iterable datasets WITH or WITHOUT a state of their own (restore path / fast-forward path: fresh workers,
   the steps replayed): any finite chain of checkpoint/resume, every arrival schedule throughout *)
Theorem C01_iter_resume_chain_no_snapshots : forall c, c_kind c = KIter -> 0 < c_W c -> 0 < c_P c -> c_I c = 0 ->
  forall ks sched, fold_right Nat.add 0 ks <= length (reference c) ->
  let '(s, sched') := chain c ks (sdl_fresh c) sched in
  let p := fold_right Nat.add 0 ks in
  outcomes c (S (length (reference c) - p)) s sched' = map OBatch (skipn p (reference c)) ++ [OStop].
Proof. exact iter_resume_chain_I0. Qed.
Print Assumptions C01_iter_resume_chain_no_snapshots.

(* iterable datasets, ANY snapshot interval, the MAIN-process side of a resume, PROVED for every state dict d and EVERY arrival
   schedule of the resumed run: if the per-worker entries of d restore workers whose remaining answers are the batch lists B
   (workers_ok: queue empty, alive, future answers = B w from its first task on; one placeholder in front for the workers below
   the start of the cycle), then the iterator built from d — workers restored, cycle started after the last yielded worker,
   prefetch_factor * num_workers tasks put, the steps since the snapshot replayed — yields exactly the rest of the walk over B,
   then StopIteration; no assertion fires.  What remains a target for snapshot intervals >= 2 is the WORKER-ENTRY half: that
   the entries a run writes into its snapshots are the workers' states after their last yielded batch (intervals 0 and 1: proved). *)
Theorem C01_iter_resume_main_exact : forall c, c_kind c = KIter -> 0 < c_W c -> 0 < c_P c -> c_stateful c = true ->
  forall (B : nat -> list (list nat)) (d : sdict),
  workers_ok c B (S (sn_last (sd_snapshot d)) mod c_W c) (map (fun sv : wsave => wk_restored (fst sv, snd sv)) (sn_workers (sd_snapshot d))) ->
  (forall w, w < c_W c -> a0 (S (sn_last (sd_snapshot d)) mod c_W c) w <= nb B w) ->
  forall sched, sd_steps d <= length (refsuf (c_W c) B 0 (S (sn_last (sd_snapshot d)) mod c_W c)) ->
  let '(sr, sched') := sdl_resume c d sched in
  outcomes c (S (length (refsuf (c_W c) B 0 (S (sn_last (sd_snapshot d)) mod c_W c)) - sd_steps d)) sr sched' =
  map OBatch (skipn (sd_steps d) (refsuf (c_W c) B 0 (S (sn_last (sd_snapshot d)) mod c_W c))) ++ [OStop].
Proof. exact resume_main_exact. Qed.
Print Assumptions C01_iter_resume_main_exact.

(* PROVED building blocks of the iterable statement — the worker side: a worker restored from the (position, fetcher_ended)
   state that ANY of its answers carried gives, for every further task sequence, exactly the answers the original worker
   would have given (so the per-worker part of a checkpoint resumes exactly); and from any position the answers are the
   remaining batches of the shard, then end-of-shard notices *)
Theorem C01_iter_restored_worker_continues : forall c, c_kind c = KIter -> forall w k t ts,
  let '(_, st, k') := worker_fetch c w k t in
  forall sv, st = Some sv -> fst (fetches c w (wk_restored sv) ts) = fst (fetches c w k' ts).
Proof. exact restored_worker_continues. Qed.
Print Assumptions C01_iter_restored_worker_continues.

Theorem C01_iter_worker_rest_exact : forall c, c_kind c = KIter -> forall w fuel pos k ts,
  wk_pos k = pos -> wk_ended k = false -> length (skipn pos (shard c w)) < fuel ->
  fst (fetches c w k ts) = answers (length ts) (chunks fuel (c_bs c) (c_drop c) (skipn pos (shard c w))).
Proof. exact fetches_are_chunks. Qed.
Print Assumptions C01_iter_worker_rest_exact.

(* the iterable statement itself on a SMALL SCOPE — finite-domain theorem by computation in the kernel (SdlIterSmall2.v):
   stateful dataset with and without rewind-on-exhaustion, 1-2 workers, prefetch_factor 2, snapshot interval 1-2,
   batch_size 1-2, drop_last=False, shards of 0-3 items; EVERY interruption point k and every pair of arrival schedules
   whose first 3 choices are arbitrary.  Nothing is claimed outside this scope. *)
Theorem C01_iter_resume_exact_small_scope : forall c k s1 s2, In c resume_cfgs -> k <= length (reference c) ->
  In s1 (all_lists [0; 1] 3) -> In s2 (all_lists [0; 1] 3) ->
  let '(sk, _) := replay c k (sdl_fresh c) s1 in
  let '(sr, sched') := sdl_resume c (state_dict sk) s2 in
  outcomes c (S (length (reference c) - k)) sr sched' = map OBatch (skipn k (reference c)) ++ [OStop].
Proof. exact iter_resume_exact_small_scope. Qed.
Print Assumptions C01_iter_resume_exact_small_scope.

(* non-vacuity / regression instances (tests, not proofs): README-style iterable dataset N=10, bs=2, W=2, k=5 (the D1 case),
   and a map-style instance with interval 3 *)
Example C01_iter_instance_D1 :
  let c := {| c_kind := KIter; c_W := 2; c_P := 2; c_I := 1; c_bs := 2; c_drop := false;
              c_shards := [[0;2;4;6;8];[1;3;5;7;9]]; c_batches := []; c_bad := []; c_stateful := true; c_rewind := true |} in
  let '(sk, _) := replay c 5 (sdl_fresh c) [1;0;1;1;0;0;1] in
  let '(sr, sc) := sdl_resume c (state_dict sk) [0;1;0] in
  outcomes c 2 sr sc = map OBatch (skipn 5 (reference c)) ++ [OStop].
Proof. vm_compute. reflexivity. Qed.

Example C01_map_instance :
  let c := {| c_kind := KMap; c_W := 2; c_P := 2; c_I := 3; c_bs := 2; c_drop := false; c_shards := [];
              c_batches := [[0;1];[2;3];[4;5];[6;7];[8;9];[10]]; c_bad := []; c_stateful := true; c_rewind := false |} in
  let '(sk, _) := replay c 4 (sdl_fresh c) [1;1;0;1] in
  let '(sr, sc) := sdl_resume c (state_dict sk) [1;0;1;0] in
  (sd_steps (state_dict sk), outcomes c 3 sr sc) = (1, [OBatch [8;9]; OBatch [10]; OStop]).
Proof. vm_compute. reflexivity. Qed.
