(* Properties_C01.v — placeholder until SdlProofs.v lands; see DESIGN.md 4 C01. *)
From PD Require Import Base SdlModel SdlObs.
Theorem C01_placeholder : True. Proof. exact I. Qed.
Print Assumptions C01_placeholder.
