(* IncrModel.v — executable model of torchdata/stateful_dataloader/incremental_state.py (C07).
   Nested state dicts are trees; Python dicts are association lists in insertion order with
   Python's update-in-place semantics.  Leaves (scalars, strings, lists, tensors, None) are opaque
   tokens compared by value (after fix 51a43e7 the retained base is a copy, so == is by value).
   No proofs here. *)
From PD Require Import Base.

Definition path := list nat.

Inductive value :=
| VLeaf (t : nat)                      (* any non-dict value, identified by a token; token 0 = None *)
| VDict (kvs : list (nat * value)).    (* a dict; VDict [] is the empty dict, which _flatten treats as a leaf *)

Fixpoint path_eqb (p q : path) : bool :=
  match p, q with
  | [], [] => true
  | a :: p', b :: q' => Nat.eqb a b && path_eqb p' q'
  | _, _ => false
  end.

(* Python dict as association list *)
Section Assoc.
  Context {K V : Type} (keq : K -> K -> bool).
  Fixpoint aget (d : list (K * V)) (k : K) : option V :=
    match d with [] => None | (k', v) :: r => if keq k' k then Some v else aget r k end.
  Fixpoint aset (d : list (K * V)) (k : K) (v : V) : list (K * V) :=     (* d[k] = v *)
    match d with
    | [] => [(k, v)]
    | (k', v') :: r => if keq k' k then (k', v) :: r else (k', v') :: aset r k v
    end.
  Fixpoint adel (d : list (K * V)) (k : K) : list (K * V) :=             (* d.pop(k, None) *)
    match d with [] => [] | (k', v') :: r => if keq k' k then r else (k', v') :: adel r k end.
  Definition aupdate (d e : list (K * V)) : list (K * V) :=               (* d.update(e) *)
    fold_left (fun acc kv => aset acc (fst kv) (snd kv)) e d.
End Assoc.

Definition flatmap := list (path * value).

(* _flatten(data, key_lineage) *)
Fixpoint flatten (v : value) (lin : path) {struct v} : flatmap :=
  match v with
  | VLeaf _ => [(lin, v)]
  | VDict [] => [(lin, v)]
  | VDict kvs =>
      (fix go (l : list (nat * value)) (acc : flatmap) {struct l} : flatmap :=
         match l with
         | [] => acc
         | (k, x) :: r => go r (aupdate path_eqb acc (flatten x (lin ++ [k])))
         end) kvs []
  end.

(* _unflatten(flat_data): first pass groups by the first key component *)
Inductive slot := SVal (v : value) | SGroup (g : flatmap).

Inductive pass1 := P1Return (v : value) | P1Nested (n : list (nat * slot)) | P1Error.

Fixpoint uf_pass1 (f : flatmap) (nested : list (nat * slot)) : pass1 :=
  match f with
  | [] => P1Nested nested
  | ([], v) :: _ => P1Return v                                   (* len(key) == 0: return value *)
  | ([k], v) :: r => uf_pass1 r (aset Nat.eqb nested k (SVal v))    (* nested_data[prefix] = value *)
  | (k :: suffix, v) :: r =>
      match aget Nat.eqb nested k with
      | None => uf_pass1 r (aset Nat.eqb nested k (SGroup [(suffix, v)]))
      | Some (SGroup g) => uf_pass1 r (aset Nat.eqb nested k (SGroup (aset path_eqb g suffix v)))
      | Some (SVal (VDict [])) => uf_pass1 r (aset Nat.eqb nested k (SGroup [(suffix, v)]))
      | Some (SVal _) => P1Error                                 (* item assignment on a non-dict *)
      end
  end.

Fixpoint unflatten (fuel : nat) (f : flatmap) : option value :=
  match fuel with
  | 0 => None
  | S fuel' =>
      match uf_pass1 f [] with
      | P1Return v => Some v
      | P1Error => None
      | P1Nested nested =>
          (* second pass: every dict-valued entry is unflattened recursively *)
          option_map VDict ((fix go (l : list (nat * slot)) : option (list (nat * value)) :=
             match l with
             | [] => Some []
             | (k, s) :: r =>
                 match (match s with
                        | SVal (VLeaf t) => Some (VLeaf t)
                        | SVal (VDict []) => Some (VDict [])          (* _unflatten({}) = {} *)
                        | SVal (VDict _) => None
                        | SGroup g => unflatten fuel' g
                        end), go r with
                 | Some x, Some r' => Some ((k, x) :: r')
                 | _, _ => None
                 end
             end) nested)
      end
  end.

Fixpoint depth (v : value) : nat :=
  match v with
  | VLeaf _ => 1
  | VDict kvs => S (fold_right (fun kv m => Nat.max (depth (snd kv)) m) 0 kvs)
  end.
Definition flat_fuel (f : flatmap) : nat := S (fold_right (fun kv m => Nat.max (length (fst kv)) m) 0 f).

(* leaf equality as generate_delta tests it: prev == new on flat values *)
Definition fval_eqb (a b : value) : bool :=
  match a, b with
  | VLeaf x, VLeaf y => Nat.eqb x y
  | VDict [], VDict [] => true
  | _, _ => false
  end.

Inductive dval := DVal (v : value) | Tomb.
Definition delta := list (path * dval).

(* _IncrementalState *)
Definition is_init (initial : value) : flatmap := flatten initial [].

Definition gen_delta (base : flatmap) (new_state : value) : delta * flatmap :=
  let nf := flatten new_state [] in
  let keys := map fst base ++ filter (fun p => match aget path_eqb base p with None => true | _ => false end) (map fst nf) in
  let d := fold_left (fun (acc : delta) p =>
             match aget path_eqb base p, aget path_eqb nf p with
             | None, Some x => aset path_eqb acc p (DVal x)          (* new key *)
             | Some _, None => aset path_eqb acc p Tomb              (* deleted key *)
             | Some a, Some b => if fval_eqb a b then acc else aset path_eqb acc p (DVal b)
             | None, None => acc
             end) keys [] in
  (d, nf).

Definition apply_delta (st : flatmap) (d : delta) : flatmap :=
  fold_left (fun acc kv => match snd kv with
                           | Tomb => adel path_eqb acc (fst kv)
                           | DVal x => aset path_eqb acc (fst kv) x
                           end) d st.

Definition get_state (st : flatmap) : option value := unflatten (flat_fuel st) st.

(* ---------------------------------------------------------------- *)
(* _IncrementalWorkerState: dataset_state and fetcher_state may be None *)
Record wstate := {                 (* what _make_state_dict returns *)
  ws_dataset : option value;
  ws_fetcher : option (bool * option value) }.   (* (fetcher_ended, dataset_iter_state) *)

Record iws := {                    (* _IncrementalWorkerState *)
  iw_ended : option bool;
  iw_ds : flatmap;
  iw_it : flatmap }.

Definition vnone : value := VLeaf 0.
Definition oval (o : option value) : value := match o with Some v => v | None => vnone end.

Definition iws_init (w : option wstate) : iws :=
  match w with
  | None => {| iw_ended := None; iw_ds := is_init vnone; iw_it := is_init vnone |}
  | Some w =>
      {| iw_ended := match ws_fetcher w with Some (e, _) => Some e | None => None end;
         iw_ds := is_init (oval (ws_dataset w));
         iw_it := is_init (match ws_fetcher w with Some (_, it) => oval it | None => vnone end) |}
  end.

Record wdelta := {
  wd_dataset : option delta;
  wd_fetcher : option (bool * option delta) }.

Definition iws_gen_delta (s : iws) (w : wstate) : wdelta * iws :=
  let '(dd, ds') := match ws_dataset w with
                    | Some v => let '(d, f) := gen_delta (iw_ds s) v in (Some d, f)
                    | None => (None, iw_ds s)
                    end in
  match ws_fetcher w with
  | None => ({| wd_dataset := dd; wd_fetcher := None |},
             {| iw_ended := iw_ended s; iw_ds := ds'; iw_it := iw_it s |})
  | Some (e, it) =>
      let '(di, it') := match it with
                        | Some v => let '(d, f) := gen_delta (iw_it s) v in (Some d, f)
                        | None => (None, iw_it s)
                        end in
      ({| wd_dataset := dd; wd_fetcher := Some (e, di) |},
       {| iw_ended := Some e; iw_ds := ds'; iw_it := it' |})
  end.

Definition iws_apply_delta (s : iws) (d : wdelta) : iws :=
  let ds' := match wd_dataset d with Some x => apply_delta (iw_ds s) x | None => iw_ds s end in
  match wd_fetcher d with
  | None => {| iw_ended := iw_ended s; iw_ds := ds'; iw_it := iw_it s |}
  | Some (e, di) =>
      {| iw_ended := Some e; iw_ds := ds';
         iw_it := match di with Some x => apply_delta (iw_it s) x | None => iw_it s end |}
  end.

(* get_state: {dataset_state, fetcher_state: None | {ended, iter_state}} *)
Definition iws_get_state (s : iws) : option (value * option (bool * value)) :=
  match get_state (iw_ds s) with
  | None => None
  | Some d =>
      match iw_ended s with
      | None => Some (d, None)
      | Some e => match get_state (iw_it s) with Some i => Some (d, Some (e, i)) | None => None end
      end
  end.

(* ---------------------------------------------------------------- *)
(* semantic reading of a tree: the leaf found at a path *)
Fixpoint lookup (v : value) (p : path) {struct v} : option value :=
  match v, p with
  | VLeaf _, [] => Some v
  | VDict [], [] => Some v
  | VDict kvs, k :: p' =>
      (fix go (l : list (nat * value)) : option value :=
         match l with
         | [] => None
         | (k', x) :: r => if Nat.eqb k' k then lookup x p' else go r
         end) kvs
  | _, _ => None
  end.

(* well-formed trees = what Python dicts can be: no duplicate keys at any level *)
Fixpoint keys_nodup (l : list nat) : bool :=
  match l with [] => true | k :: r => negb (existsb (Nat.eqb k) r) && keys_nodup r end.
Fixpoint wf (v : value) : bool :=
  match v with
  | VLeaf _ => true
  | VDict kvs => keys_nodup (map fst kvs) &&
                 (fix go (l : list (nat * value)) : bool :=
                    match l with [] => true | (_, x) :: r => wf x && go r end) kvs
  end.
