(* SamplerModel.v — executable model of torchdata/stateful_dataloader/sampler.py
   (C15).  One Gallina function per Python method, same fields, same order of
   effects.  The torch generator is abstract: a type [G] of generator states and
   two drawing functions (Section variables).  No proofs here. *)
From PD Require Import Base.

(* outcome of one __next__ *)
Inductive out (A : Type) := Val (a : A) | StopIt | IndexErr.
Arguments Val {A} a. Arguments StopIt {A}. Arguments IndexErr {A}.

(* ------------------------------------------------------------------ *)
(* _StatefulRandomSamplerIterator                                      *)
Section RandomSampler.
  Variable G : Type.
  Variable randperm : G -> nat -> list nat * G.  (* torch.randperm(n, generator=g).tolist()            *)
  Variable randint : G -> nat -> list nat * G.   (* torch.randint(high=n, size=(32,), generator=g)     *)

  Record rs_cfg := { rs_n : nat; rs_replacement : bool; rs_num_samples : nat }.

  Record rs_iter := {
    rs_g0 : G;            (* self.generator_state : saved at creation, or loaded            *)
    rs_g : G;             (* self.sampler.generator : the live, shared generator            *)
    rs_yielded : nat;
    rs_perm : list nat;
    rs_perm_index : nat }.

  Definition get_perm (c : rs_cfg) (g : G) : list nat * G :=
    if rs_replacement c then randint g (rs_n c) else randperm g (rs_n c).

  (* __init__ : generator_state = generator.get_state(); perm = _get_perm() *)
  Definition rs_init (c : rs_cfg) (g : G) : rs_iter :=
    let '(p, g') := get_perm c g in
    {| rs_g0 := g; rs_g := g'; rs_yielded := 0; rs_perm := p; rs_perm_index := 0 |}.

  Definition rs_next (c : rs_cfg) (it : rs_iter) : out nat * rs_iter :=
    if rs_yielded it =? rs_num_samples c then (StopIt, it) else
    let it1 :=
      if rs_perm_index it =? length (rs_perm it) then
        let '(p, g') := get_perm c (rs_g it) in
        {| rs_g0 := rs_g0 it; rs_g := g'; rs_yielded := rs_yielded it; rs_perm := p; rs_perm_index := 0 |}
      else it in
    match nth_error (rs_perm it1) (rs_perm_index it1) with
    | Some v => (Val v, {| rs_g0 := rs_g0 it1; rs_g := rs_g it1; rs_yielded := S (rs_yielded it1);
                           rs_perm := rs_perm it1; rs_perm_index := S (rs_perm_index it1) |})
    | None => (IndexErr, it1)          (* perm[perm_index] on an empty perm *)
    end.

  (* state_dict : {yielded, generator} *)
  Definition rs_state_dict (it : rs_iter) : nat * G := (rs_yielded it, rs_g0 it).

  Fixpoint rs_advance (c : rs_cfg) (k : nat) (it : rs_iter) : rs_iter :=
    match k with 0 => it | S k' => rs_advance c k' (snd (rs_next c it)) end.

  (* load_state_dict: set_state(saved); perm = _get_perm(); next(self) x yielded; yielded := saved *)
  Definition rs_load (c : rs_cfg) (it : rs_iter) (sd : nat * G) : rs_iter :=
    let '(y, gs) := sd in
    let '(p, g') := get_perm c gs in
    let it1 := {| rs_g0 := gs; rs_g := g'; rs_yielded := rs_yielded it; rs_perm := p;
                  rs_perm_index := rs_perm_index it |} in
    let it2 := rs_advance c y it1 in
    {| rs_g0 := rs_g0 it2; rs_g := rs_g it2; rs_yielded := y; rs_perm := rs_perm it2;
       rs_perm_index := rs_perm_index it2 |}.

  Definition rs_next_opt (c : rs_cfg) (it : rs_iter) : option nat * rs_iter :=
    match rs_next c it with (Val v, it') => (Some v, it') | (_, it') => (None, it') end.

  (* all values of one epoch (fuel = num_samples + 1 suffices) *)
  Definition rs_run (c : rs_cfg) (it : rs_iter) : list nat :=
    iter_run (rs_next_opt c) (S (rs_num_samples c)) it.
End RandomSampler.

Arguments rs_g0 {G}. Arguments rs_g {G}. Arguments rs_yielded {G}. Arguments rs_perm {G}.
Arguments rs_perm_index {G}.

(* ------------------------------------------------------------------ *)
(* _BatchSamplerIterator over an arbitrary inner iterator               *)
Section BatchSampler.
  Variables (S A : Type) (inner_next : S -> option A * S).

  (* the for-loop of __next__: returns batch, inner state, samples_yielded, hit-StopIteration *)
  Fixpoint bs_collect (todo : nat) (s : S) (acc : list A) (cnt : nat) : list A * S * nat * bool :=
    match todo with
    | 0 => (acc, s, cnt, false)
    | Datatypes.S t =>
        match inner_next s with
        | (Some x, s') => bs_collect t s' (acc ++ [x]) (Datatypes.S cnt)
        | (None, s') => (acc, s', cnt, true)
        end
    end.

  Record bs_iter := { bs_inner : S; bs_samples_yielded : nat }.

  Definition bs_next (batch_size : nat) (drop_last : bool) (it : bs_iter) : option (list A) * bs_iter :=
    let '(batch, s', cnt, stopped) := bs_collect batch_size (bs_inner it) [] (bs_samples_yielded it) in
    let it' := {| bs_inner := s'; bs_samples_yielded := cnt |} in
    if stopped then
      if drop_last || (match batch with [] => true | _ => false end) then (None, it')
      else (Some batch, it')
    else (Some batch, it').
End BatchSampler.
Arguments bs_inner {S}. Arguments bs_samples_yielded {S}. Arguments bs_next {S A}.
Arguments bs_collect {S A}.

(* the inner iterator of a plain (stateless) sampler: a list being consumed *)
Definition list_next {A} (l : list A) : option A * list A :=
  match l with [] => (None, []) | x :: t => (Some x, t) end.

(* torch.utils.data.BatchSampler as a list function (the specification) *)
Fixpoint chunk_fuel {A} (fuel bs : nat) (drop_last : bool) (xs : list A) : list (list A) :=
  match fuel with
  | 0 => []
  | Datatypes.S f =>
      match xs with
      | [] => []
      | _ => if length xs <? bs then (if drop_last then [] else [xs])
             else firstn bs xs :: chunk_fuel f bs drop_last (skipn bs xs)
      end
  end.
Definition chunk {A} (bs : nat) (drop_last : bool) (xs : list A) : list (list A) :=
  chunk_fuel (Datatypes.S (length xs)) bs drop_last xs.

(* stateless inner sampler: batches by running the iterator, and the fast-forward resume *)
Definition bs_run_list {A} (bs : nat) (drop : bool) (xs : list A) (already : nat) : list (list A) :=
  iter_run (bs_next list_next bs drop) (Datatypes.S (length xs))
           {| bs_inner := xs; bs_samples_yielded := already |}.

(* load_state_dict with a stateless sampler: new iter(sampler), skip samples_yielded *)
Definition bs_load_ff {A} (xs : list A) (samples_yielded : nat) : bs_iter (list A) :=
  {| bs_inner := snd (Nat.iter samples_yielded (fun st => list_next (snd st)) (None, xs));
     bs_samples_yielded := samples_yielded |}.

(* ------------------------------------------------------------------ *)
(* StatefulDistributedSampler: the parent's index list is given (torch) *)
Record ds_sampler := { ds_yielded : nat; ds_next_yielded : option nat }.

(* __iter__ (after fix 14c8f14: counter reset when iter() is called) *)
Definition ds_iter (idxs : list nat) (s : ds_sampler) : ds_sampler * list nat :=
  let y := match ds_next_yielded s with Some y => y | None => 0 end in
  ({| ds_yielded := y; ds_next_yielded := None |}, skipn y idxs).

(* one next() of the generator returned by __iter__ *)
Definition ds_next (st : ds_sampler * list nat) : option nat * (ds_sampler * list nat) :=
  match snd st with
  | [] => (None, st)
  | x :: t => (Some x, ({| ds_yielded := Datatypes.S (ds_yielded (fst st));
                           ds_next_yielded := ds_next_yielded (fst st) |}, t))
  end.
Definition ds_state_dict (s : ds_sampler) : nat := ds_yielded s.
Definition ds_load (s : ds_sampler) (y : nat) : ds_sampler :=
  {| ds_yielded := ds_yielded s; ds_next_yielded := Some y |}.
Definition ds_fresh : ds_sampler := {| ds_yielded := 0; ds_next_yielded := None |}.

(* The pre-fix behaviour (lazy generator): the reset of [yielded] happens at the first next().
   Kept to state the regression (D11) as a refuted theorem. *)
Definition ds_iter_lazy (idxs : list nat) (s : ds_sampler) : ds_sampler * list nat := (s, idxs).
Definition ds_state_after_iter_lazy (idxs : list nat) (s : ds_sampler) : nat :=
  ds_state_dict (fst (ds_iter_lazy idxs s)).
