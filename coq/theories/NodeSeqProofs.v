(* NodeSeqProofs.v -- the sequential semantics of the node model (NodeModel.v) agrees with the
   list-function reference [sem]:
     (S1) first_epoch_is_sem   (S2) every_epoch_is_sem   (S3) prebatch_invisible[_sem]
     (S4) stop_is_sticky[_next]
   Method: a representation invariant [R p e b t rest] ("t is an initialised state of p in epoch e
   that still has to yield exactly rest; b = the sampler leaf's `started` flag"), preserved by
   get_state ([state_R]), advanced by next ([next_R]) and established by reset(None) ([reset_R]);
   fuel sufficiency of the Filter/Unbatcher loops and of FUEL comes from [sem_bnd]: every unbatching
   depth of [sem p e] is shorter than [pipe_fuel p].  Stdlib only; no axioms. *)
From PD Require Import Base NodeModel.
Open Scope string_scope.
Open Scope list_scope.
Open Scope nat_scope.

Fixpoint pipe_ok (p : pipe) : bool :=
  match p with
  | PSrc _ _ | PSampler _ => true
  | PBatch n _ q => (0 <? n) && pipe_ok q
  | PMap _ q | PParMap _ _ q | PPrefetch _ q | PUnbatch q | PFilter _ q => pipe_ok q
  end.
Definition FUEL (p : pipe) := S (pipe_fuel p).

(* ------------------------------------------------------------------ *)
(* list-level facts                                                     *)

Lemma items_size_cons x l : items_size (x :: l) = item_size x + items_size l.
Proof. reflexivity. Qed.

Lemma item_size_list m : item_size (IList m) = S (items_size m).
Proof. reflexivity. Qed.

Lemma items_size_app a b : items_size (a ++ b) = items_size a + items_size b.
Proof. induction a as [|x a IH]; [reflexivity|]. rewrite <- app_comm_cons, !items_size_cons, IH. lia. Qed.

Lemma items_size_unb1 l : items_size l = length l + items_size (flat_map batch_items l).
Proof.
  induction l as [|x l IH]; [reflexivity|].
  cbn [flat_map length]. rewrite items_size_cons, items_size_app, IH.
  destruct x as [n| |m]; cbn [batch_items]; try rewrite item_size_list; cbn [item_size items_size fold_right]; lia.
Qed.

(* d-fold unbatching *)
Fixpoint unb (d : nat) (l : list item) : list item :=
  match d with 0 => l | S d' => unb d' (flat_map batch_items l) end.

Lemma unb_app d : forall a b, unb d (a ++ b) = unb d a ++ unb d b.
Proof. induction d as [|d IH]; intros a b; [reflexivity|]. cbn [unb]. rewrite flat_map_app. apply IH. Qed.

Lemma unb_le_size d : forall l, length (unb d l) <= items_size l.
Proof.
  induction d as [|d IH]; intros l; cbn [unb].
  - rewrite (items_size_unb1 l). lia.
  - specialize (IH (flat_map batch_items l)). rewrite (items_size_unb1 l). lia.
Qed.

(* all unbatching depths are shorter than B *)
Definition bnd (B : nat) (l : list item) : Prop := forall d, length (unb d l) < B.

Lemma bnd_length B l : bnd B l -> length l < B.
Proof. intros H. exact (H 0). Qed.

Lemma bnd_S B l : bnd B l -> bnd (S B) l.
Proof. intros H d. specialize (H d). lia. Qed.

Lemma bnd_app_r B a b : bnd B (a ++ b) -> bnd B b.
Proof. intros H d. specialize (H d). rewrite unb_app, app_length in H. lia. Qed.

Lemma bnd_app_l B a b : bnd B (a ++ b) -> bnd B a.
Proof. intros H d. specialize (H d). rewrite unb_app, app_length in H. lia. Qed.

Lemma bnd_unbatch B l : bnd B l -> bnd B (flat_map batch_items l).
Proof. intros H d. exact (H (S d)). Qed.

Lemma unb_cons_length d x l : length (unb d (x :: l)) = length (unb d [x]) + length (unb d l).
Proof. change (x :: l) with ([x] ++ l). rewrite unb_app, app_length. reflexivity. Qed.

Lemma unb_filter_le pr d : forall l, length (unb d (filter pr l)) <= length (unb d l).
Proof.
  induction l as [|x l IH]; [apply Nat.le_refl|].
  cbn [filter]. destruct (pr x).
  - rewrite (unb_cons_length d x l), (unb_cons_length d x (filter pr l)). lia.
  - rewrite (unb_cons_length d x l). lia.
Qed.

Lemma bnd_filter B pr l : bnd B l -> bnd B (filter pr l).
Proof. intros H d. specialize (H d). pose proof (unb_filter_le pr d l). lia. Qed.

Lemma flat_map_fadd k l :
  flat_map batch_items (map (apply_fn (FAdd k)) l) = map (apply_fn (FAdd k)) (flat_map batch_items l).
Proof.
  induction l as [|x l IH]; [reflexivity|].
  cbn [map flat_map]. rewrite map_app, IH. destruct x; reflexivity.
Qed.

Lemma flat_map_fwrap l : flat_map batch_items (map (apply_fn FWrap) l) = l.
Proof.
  induction l as [|x l IH]; [reflexivity|].
  cbn [map flat_map]. rewrite IH. destruct x; reflexivity.
Qed.

Lemma flat_map_fnone l : flat_map batch_items (map (apply_fn FNoneIfEven) l) = flat_map batch_items l.
Proof.
  induction l as [|x l IH]; [reflexivity|].
  cbn [map flat_map]. rewrite IH. destruct x as [n| |m]; try reflexivity.
  cbn [apply_fn]. destruct (Nat.even n); reflexivity.
Qed.

Lemma unb_fadd k d : forall l, unb d (map (apply_fn (FAdd k)) l) = map (apply_fn (FAdd k)) (unb d l).
Proof. induction d as [|d IH]; intros l; [reflexivity|]. cbn [unb]. rewrite flat_map_fadd. apply IH. Qed.

Lemma bnd_map B f l : bnd B l -> bnd B (map (apply_fn f) l).
Proof.
  intros H d. destruct f as [k| |].
  - rewrite unb_fadd, map_length. apply H.
  - destruct d as [|d]; cbn [unb].
    + rewrite map_length. apply (H 0).
    + rewrite flat_map_fwrap. apply H.
  - destruct d as [|d]; cbn [unb].
    + rewrite map_length. apply (H 0).
    + rewrite flat_map_fnone. apply (H (S d)).
Qed.

(* chunking *)
Lemma chunk_fuel_irrel n dr : 0 < n -> forall F F' l, length l < F -> length l < F' ->
  chunk_items F n dr l = chunk_items F' n dr l.
Proof.
  intros Hn. induction F as [|F IH]; intros F' l H1 H2; [lia|].
  destruct F' as [|F']; [lia|]. cbn [chunk_items].
  destruct l as [|x l]; [reflexivity|].
  destruct (length (x :: l) <? n); [reflexivity|].
  f_equal. apply IH; rewrite skipn_length; cbn [length] in *; lia.
Qed.

Lemma chunk_length n dr : 0 < n -> forall F l, length (chunk_items F n dr l) <= length l.
Proof.
  intros Hn. induction F as [|F IH]; intros l; cbn [chunk_items]; [cbn; lia|].
  destruct l as [|x l]; [cbn; lia|].
  destruct (length (x :: l) <? n) eqn:E.
  - destruct dr; cbn [length]; lia.
  - apply Nat.ltb_ge in E. cbn [length] in *. specialize (IH (skipn n (x :: l))).
    rewrite skipn_length in IH. cbn [length] in IH. lia.
Qed.

Lemma chunk_flat_prefix n dr : forall F l, exists r, flat_map batch_items (chunk_items F n dr l) ++ r = l.
Proof.
  induction F as [|F IH]; intros l; cbn [chunk_items]; [exists l; reflexivity|].
  destruct l as [|x l]; [exists []; reflexivity|].
  destruct (length (x :: l) <? n).
  - destruct dr; [exists (x :: l); reflexivity|]. exists []. cbn [flat_map batch_items]. rewrite !app_nil_r. reflexivity.
  - destruct (IH (skipn n (x :: l))) as [r Hr]. exists r.
    cbn [flat_map batch_items]. rewrite <- app_assoc, Hr. apply firstn_skipn.
Qed.

Lemma chunk_flat_nodrop n : 0 < n -> forall F l, length l < F ->
  flat_map batch_items (chunk_items F n false l) = l.
Proof.
  intros Hn. induction F as [|F IH]; intros l HF; [lia|]. cbn [chunk_items].
  destruct l as [|x l]; [reflexivity|].
  destruct (length (x :: l) <? n) eqn:E.
  - cbn [flat_map batch_items]. apply app_nil_r.
  - cbn [flat_map batch_items]. rewrite IH; [apply firstn_skipn|].
    rewrite skipn_length. cbn [length] in *. lia.
Qed.

Lemma bnd_chunk B n dr F l : 0 < n -> bnd B l -> bnd B (chunk_items F n dr l).
Proof.
  intros Hn H d. destruct d as [|d]; cbn [unb].
  - pose proof (chunk_length n dr Hn F l). pose proof (H 0). cbn [unb] in *. lia.
  - destruct (chunk_flat_prefix n dr F l) as [r Hr].
    rewrite <- Hr in H. apply bnd_app_l in H. apply H.
Qed.

(* (S3) batching, mapping batch-wise and unbatching is invisible *)
Lemma flat_map_batchwise (g : item -> item) : forall bs,
  flat_map batch_items (map (fun b => IList (map g (batch_items b))) bs) = map g (flat_map batch_items bs).
Proof.
  induction bs as [|b bs IH]; [reflexivity|].
  cbn [map flat_map]. rewrite map_app, IH. reflexivity.
Qed.

Theorem prebatch_invisible : forall (g : item -> item) n (xs : list item), 0 < n ->
  flat_map batch_items (map (fun b => IList (map g (batch_items b))) (chunk_items (S (length xs)) n false xs)) = map g xs.
Proof.
  intros g n xs Hn. rewrite flat_map_batchwise, chunk_flat_nodrop; [reflexivity|exact Hn|lia].
Qed.

(* the same fact at the level of [sem], for the batch-wise map functions of the model *)
Corollary unbatch_batch_sem : forall n q e, 0 < n -> sem (PUnbatch (PBatch n false q)) e = sem q e.
Proof. intros n q e Hn. cbn [sem]. apply chunk_flat_nodrop; [exact Hn|lia]. Qed.

Corollary prebatch_invisible_sem : forall k n q e, 0 < n ->
  sem (PUnbatch (PMap (FAdd k) (PBatch n false q))) e = sem (PMap (FAdd k) q) e.
Proof.
  intros k n q e Hn. cbn [sem]. rewrite flat_map_fadd, chunk_flat_nodrop; [reflexivity|exact Hn|lia].
Qed.

(* sampler orders *)
Lemma fold_max_in (orders : list (list item)) o :
  In o orders -> items_size o <= fold_right (fun o m => Nat.max (items_size o) m) 0 orders.
Proof.
  induction orders as [|a orders IH]; intros H; [destruct H|].
  cbn [fold_right]. destruct H as [->|H]; [lia|]. specialize (IH H). lia.
Qed.

Lemma last_in_or_nil (orders : list (list item)) : last orders [] = [] \/ In (last orders []) orders.
Proof.
  induction orders as [|a orders IH]; [left; reflexivity|].
  destruct orders as [|b orders]; [right; left; reflexivity|].
  destruct IH as [IH|IH].
  - left. exact IH.
  - right. right. exact IH.
Qed.

Lemma epoch_order_size orders e :
  items_size (epoch_order orders e) <= fold_right (fun o m => Nat.max (items_size o) m) 0 orders.
Proof.
  unfold epoch_order. destruct (nth_in_or_default e orders (last orders [])) as [H|H].
  - apply fold_max_in. exact H.
  - rewrite H. destruct (last_in_or_nil orders) as [H'|H'].
    + rewrite H'. cbn. lia.
    + apply fold_max_in. exact H'.
Qed.

Lemma pipe_ok_batch n d q : pipe_ok (PBatch n d q) = true -> 0 < n /\ pipe_ok q = true.
Proof. cbn [pipe_ok]. intros H. apply andb_prop in H. destruct H as [H1 H2]. apply Nat.ltb_lt in H1. auto. Qed.

Lemma sem_bnd p : pipe_ok p = true -> forall e, bnd (pipe_fuel p) (sem p e).
Proof.
  induction p as [xs st|orders|f q IH|f sf q IH|sf q IH|n dr q IH|q IH|pr q IH]; intros Hok e; cbn [sem pipe_fuel].
  - intros d. pose proof (unb_le_size d xs). lia.
  - intros d. pose proof (unb_le_size d (epoch_order orders e)). pose proof (epoch_order_size orders e). lia.
  - apply bnd_S, bnd_map, IH, Hok.
  - apply bnd_S, bnd_map, IH, Hok.
  - apply bnd_S, IH, Hok.
  - apply pipe_ok_batch in Hok. destruct Hok as [Hn Hok]. apply bnd_S, bnd_chunk; [exact Hn|]. apply IH, Hok.
  - apply bnd_S, bnd_unbatch, IH, Hok.
  - apply bnd_S, bnd_filter, IH, Hok.
Qed.

Lemma sem_length p e : pipe_ok p = true -> length (sem p e) < pipe_fuel p.
Proof. intros H. apply bnd_length, sem_bnd, H. Qed.

(* ------------------------------------------------------------------ *)
(* the local loops of the model as stand-alone functions, and the       *)
(* unfolding equations of the three methods                             *)

Definition collect_gen (nxt : rt -> outcome * rt) (d : bool) : nat -> rt -> list item -> outcome * rt :=
  fix collect (todo : nat) (s : rt) (acc : list item) {struct todo} : outcome * rt :=
    match todo with
    | 0 => (OItem (IList acc), ROne s)
    | S todo' =>
        match nxt s with
        | (OItem x, s') => collect todo' s' (acc ++ [x])
        | (OStop, s') => match acc with
                         | [] => (OStop, ROne s')
                         | _ => if d then (OStop, ROne s') else (OItem (IList acc), ROne s')
                         end
        | (o, s') => (o, ROne s')
        end
    end.

Definition filter_loop_gen (nxt : rt -> outcome * rt) (pr : pred) (ny : nat) : nat -> rt -> nat -> outcome * rt :=
  fix loop (fuel : nat) (s : rt) (nf : nat) {struct fuel} : outcome * rt :=
    match fuel with
    | 0 => (OErr "fuel", RFil s nf ny)
    | S fuel' =>
        match nxt s with
        | (OItem x, s') => if apply_pred pr x then (OItem x, RFil s' nf (S ny)) else loop fuel' s' (S nf)
        | (o, s') => (o, RFil s' nf ny)
        end
    end.

Definition unb_loop_gen (nxt : rt -> outcome * rt) (stt : rt -> sd * rt)
  : nat -> rt -> list item -> nat -> option sd -> outcome * rt :=
  fix loop (fuel : nat) (s : rt) (batch : list item) (idx : nat) (cached : option sd) {struct fuel} : outcome * rt :=
    match fuel with
    | 0 => (OErr "fuel", RUnb s batch idx cached)
    | S fuel' =>
        if Nat.leb (length batch) idx then
          let '(c, s1) := stt s in
          match nxt s1 with
          | (OItem b, s2) => loop fuel' s2 (batch_items b) 0 (Some c)
          | (o, s2) => (o, RUnb s2 batch idx (Some c))
          end
        else (match nth_error batch idx with Some x => OItem x | None => OErr "index" end,
              RUnb s batch (S idx) cached)
    end.

Lemma next_src xs st t : node_next_ (PSrc xs st) t =
  match t with
  | RSrc pos => match nth_error xs pos with Some x => (OItem x, RSrc (S pos)) | None => (OStop, t) end
  | _ => (OErr "shape", t)
  end.
Proof. reflexivity. Qed.

Lemma next_sampler orders t : node_next_ (PSampler orders) t =
  match t with
  | RSampler e _ pos =>
      match nth_error (epoch_order orders e) pos with
      | Some x => (OItem x, RSampler e true (S pos))
      | None => (OStop, RSampler e true pos)
      end
  | _ => (OErr "shape", t)
  end.
Proof. reflexivity. Qed.

Lemma next_map f q t : node_next_ (PMap f q) t =
  match node_next_ q (src_of t) with
  | (OItem x, s) => (OItem (apply_fn f x), ROne s)
  | (o, s) => (o, ROne s)
  end.
Proof. reflexivity. Qed.

Lemma next_batch n d q t : node_next_ (PBatch n d q) t = collect_gen (node_next_ q) d n (src_of t) [].
Proof. reflexivity. Qed.

Lemma next_filter pr q t : node_next_ (PFilter pr q) t =
  match t with
  | RFil s nf ny => filter_loop_gen (node_next_ q) pr ny (pipe_fuel (PFilter pr q)) s nf
  | _ => (OErr "shape", t)
  end.
Proof. reflexivity. Qed.

Lemma next_unbatch q t : node_next_ (PUnbatch q) t =
  match t with
  | RUnb s batch idx cached => unb_loop_gen (node_next_ q) (node_state_ q) (pipe_fuel (PUnbatch q)) s batch idx cached
  | _ => (OErr "shape", t)
  end.
Proof. reflexivity. Qed.

Lemma next_prefetch sf q t : node_next_ (PPrefetch sf q) t = buf_next_gen (node_next_ q) (node_state_ q) None sf t.
Proof. reflexivity. Qed.

Lemma next_parmap f sf q t : node_next_ (PParMap f sf q) t = buf_next_gen (node_next_ q) (node_state_ q) (Some f) sf t.
Proof. reflexivity. Qed.

Lemma state_src xs st t : node_state_ (PSrc xs st) t =
  match t with
  | RSrc pos => (SD (("_num_yielded", SNat pos) :: (if st then [("iterable", SD [("i", SNat pos)])] else [])), t)
  | _ => (SNone, t)
  end.
Proof. reflexivity. Qed.

Lemma state_sampler orders t : node_state_ (PSampler orders) t =
  match t with
  | RSampler e _ pos => (SD [("_num_yielded", SNat pos); ("_epoch", SNat e)], t)
  | _ => (SNone, t)
  end.
Proof. reflexivity. Qed.

Lemma state_map f q t : node_state_ (PMap f q) t =
  let '(c, s) := node_state_ q (src_of t) in (SD [("it_state", SD [("source", c)])], ROne s).
Proof. reflexivity. Qed.

Lemma state_batch n d q t : node_state_ (PBatch n d q) t =
  let '(c, s) := node_state_ q (src_of t) in (SD [("source", c)], ROne s).
Proof. reflexivity. Qed.

Lemma state_filter pr q t : node_state_ (PFilter pr q) t =
  match t with
  | RFil s nf ny => let '(c, s') := node_state_ q s in
                    (SD [("source", c); ("num_filtered", SNat nf); ("num_yielded", SNat ny)], RFil s' nf ny)
  | _ => (SNone, t)
  end.
Proof. reflexivity. Qed.

Lemma state_unbatch q t : node_state_ (PUnbatch q) t =
  match t with
  | RUnb s batch idx (Some c) => (SD [("source", c); ("batch_idx", SNat idx)], t)
  | RUnb s batch idx None => let '(c, s') := node_state_ q s in
                             (SD [("source", c); ("batch_idx", SNat idx)], RUnb s' batch idx (Some c))
  | _ => (SNone, t)
  end.
Proof. reflexivity. Qed.

Lemma state_prefetch sf q t : node_state_ (PPrefetch sf q) t =
  match t with
  | RBuf s snap steps _ _ => (SD [("snapshot", snap); ("steps_since_snapshot", SNat steps)], t)
  | _ => (SNone, t)
  end.
Proof. reflexivity. Qed.

Lemma state_parmap f sf q t : node_state_ (PParMap f sf q) t =
  match t with
  | RBuf s snap steps _ _ => (SD [("it_state", SD [("snapshot", snap); ("steps_since_snapshot", SNat steps)])], t)
  | _ => (SNone, t)
  end.
Proof. reflexivity. Qed.

Lemma reset_src xs st t : node_reset (PSrc xs st) t None = RSrc 0.
Proof. reflexivity. Qed.

Lemma reset_sampler orders t : node_reset (PSampler orders) t None =
  match t with
  | RSampler e started _ => RSampler (if started then S e else e) false 0
  | _ => RSampler 0 false 0
  end.
Proof. reflexivity. Qed.

Lemma reset_map f q t : node_reset (PMap f q) t None = ROne (node_reset q (src_of t) None).
Proof. reflexivity. Qed.

Lemma reset_batch n d q t : node_reset (PBatch n d q) t None = ROne (node_reset q (src_of t) None).
Proof. reflexivity. Qed.

Lemma reset_filter pr q t : node_reset (PFilter pr q) t None = RFil (node_reset q (src_of t) None) 0 0.
Proof. reflexivity. Qed.

Lemma reset_unbatch q t : node_reset (PUnbatch q) t None = RUnb (node_reset q (src_of t) None) [] 0 None.
Proof. reflexivity. Qed.

Lemma reset_prefetch sf q t : node_reset (PPrefetch sf q) t None =
  let '(snap, s1) := node_state_ q (node_reset q (src_of t) None) in RBuf s1 snap 0 0 false.
Proof. reflexivity. Qed.

Lemma reset_parmap f sf q t : node_reset (PParMap f sf q) t None =
  let '(snap, s1) := node_state_ q (node_reset q (src_of t) None) in RBuf s1 snap 0 0 false.
Proof. reflexivity. Qed.

(* ------------------------------------------------------------------ *)
(* the representation invariant                                         *)

Definition out (rest : list item) : outcome := match rest with [] => OStop | x :: _ => OItem x end.
Definition fmap (f : option fn) (l : list item) : list item :=
  match f with Some g => map (apply_fn g) l | None => l end.

(* [R p e b t rest]: t is the state of an initialised node for p, in epoch e, that still has to
   yield exactly [rest] (a suffix of [sem p e]); b is the `started` flag of the sampler leaf. *)
Fixpoint R (p : pipe) (e : nat) (b : bool) (t : rt) (rest : list item) {struct p} : Prop :=
  (exists pre, sem p e = pre ++ rest) /\
  match p with
  | PSrc xs _ => exists pos, t = RSrc pos /\ rest = skipn pos xs
  | PSampler orders => exists pos, t = RSampler e b pos /\ rest = skipn pos (epoch_order orders e)
  | PMap f q => exists s rq, t = ROne s /\ R q e b s rq /\ rest = map (apply_fn f) rq
  | PParMap f sf q => exists s snap steps y stopped rq,
      t = RBuf s snap steps y stopped /\ R q e b s rq /\ rest = fmap (Some f) rq /\
      (stopped = true -> rq = [] /\ b = true)
  | PPrefetch sf q => exists s snap steps y stopped rq,
      t = RBuf s snap steps y stopped /\ R q e b s rq /\ rest = fmap None rq /\
      (stopped = true -> rq = [] /\ b = true)
  | PBatch n d q => exists s rq, t = ROne s /\ R q e b s rq /\ rest = chunk_items (S (length rq)) n d rq
  | PUnbatch q => exists s batch idx cached rq,
      t = RUnb s batch idx cached /\ R q e b s rq /\ rest = skipn idx batch ++ flat_map batch_items rq /\
      (idx < length batch -> b = true)
  | PFilter pr q => exists s nf ny rq, t = RFil s nf ny /\ R q e b s rq /\ rest = filter (apply_pred pr) rq
  end.

Lemma R_suffix p e b t rest : R p e b t rest -> exists pre, sem p e = pre ++ rest.
Proof. destruct p; intros [H _]; exact H. Qed.

Lemma R_length p e b t rest : pipe_ok p = true -> R p e b t rest -> length rest < pipe_fuel p.
Proof.
  intros Hok H. apply R_suffix in H. destruct H as [pre H].
  pose proof (sem_length p e Hok) as L. rewrite H, app_length in L. lia.
Qed.

Lemma R_not_uninit p e b t rest : R p e b t rest -> lazy_init p t = t.
Proof.
  destruct p; intros [_ H]; cbn [R] in H.
  all: repeat match goal with H : exists _, _ |- _ => destruct H as [? H] end.
  all: destruct H as [-> _]; reflexivity.
Qed.

Lemma suffix_tl {A} (l rest : list A) : (exists pre, l = pre ++ rest) -> exists pre, l = pre ++ tl rest.
Proof.
  intros [pre H]. destruct rest as [|x rest]; [exists pre; exact H|].
  exists (pre ++ [x]). rewrite <- app_assoc. exact H.
Qed.

(* get_state() preserves the invariant *)
Lemma state_R p : forall e b t rest, R p e b t rest -> R p e b (snd (node_state_ p t)) rest.
Proof.
  induction p as [xs st|orders|f q IH|f sf q IH|sf q IH|n dr q IH|q IH|pr q IH]; intros e b t rest [Hsuf H]; cbn [R] in H.
  - destruct H as [pos [-> ->]]. rewrite state_src. cbn [snd]. split; [exact Hsuf|]. exists pos. auto.
  - destruct H as [pos [-> ->]]. rewrite state_sampler. cbn [snd]. split; [exact Hsuf|]. exists pos. auto.
  - destruct H as [s [rq [-> [HR ->]]]]. rewrite state_map. cbn [src_of].
    specialize (IH _ _ _ _ HR). destruct (node_state_ q s) as [c s'] eqn:E. cbn [snd] in *.
    split; [exact Hsuf|]. exists s', rq. auto.
  - destruct H as [s [snap [steps [y [stopped [rq [-> [HR [-> Hst]]]]]]]]]. rewrite state_parmap. cbn [snd].
    split; [exact Hsuf|]. exists s, snap, steps, y, stopped, rq. auto.
  - destruct H as [s [snap [steps [y [stopped [rq [-> [HR [-> Hst]]]]]]]]]. rewrite state_prefetch. cbn [snd].
    split; [exact Hsuf|]. exists s, snap, steps, y, stopped, rq. auto.
  - destruct H as [s [rq [-> [HR ->]]]]. rewrite state_batch. cbn [src_of].
    specialize (IH _ _ _ _ HR). destruct (node_state_ q s) as [c s'] eqn:E. cbn [snd] in *.
    split; [exact Hsuf|]. exists s', rq. auto.
  - destruct H as [s [batch [idx [cached [rq [-> [HR [-> Hb]]]]]]]]. rewrite state_unbatch.
    destruct cached as [c|].
    + cbn [snd]. split; [exact Hsuf|]. exists s, batch, idx, (Some c), rq. auto.
    + specialize (IH _ _ _ _ HR). destruct (node_state_ q s) as [c s'] eqn:E. cbn [snd] in *.
      split; [exact Hsuf|]. exists s', batch, idx, (Some c), rq. auto.
  - destruct H as [s [nf [ny [rq [-> [HR ->]]]]]]. rewrite state_filter.
    specialize (IH _ _ _ _ HR). destruct (node_state_ q s) as [c s'] eqn:E. cbn [snd] in *.
    split; [exact Hsuf|]. exists s', nf, ny, rq. auto.
Qed.

(* what next() does on a represented state *)
Definition next_ok (q : pipe) : Prop :=
  forall e b t rest, R q e b t rest ->
    exists t', node_next_ q t = (out rest, t') /\ R q e true t' (tl rest).

Lemma fmap_out f x rq : out (fmap f (x :: rq)) = OItem (match f with Some g => apply_fn g x | None => x end).
Proof. destruct f; reflexivity. Qed.
Lemma fmap_tl f rq : tl (fmap f rq) = fmap f (tl rq).
Proof. destruct f, rq; reflexivity. Qed.
Lemma fmap_nil f : fmap f [] = [].
Proof. destruct f; reflexivity. Qed.

Lemma buf_R q (IHq : next_ok q) f sf e : forall b s snap steps y stopped rq,
  R q e b s rq -> (stopped = true -> rq = [] /\ b = true) ->
  exists s' snap' steps' y' stopped',
    buf_next_gen (node_next_ q) (node_state_ q) f sf (RBuf s snap steps y stopped)
      = (out (fmap f rq), RBuf s' snap' steps' y' stopped') /\
    R q e true s' (tl rq) /\ (stopped' = true -> tl rq = [] /\ true = true).
Proof.
  intros b s snap steps y stopped rq HR Hst. unfold buf_next_gen. destruct stopped.
  - destruct (Hst eq_refl) as [-> ->]. exists s, snap, steps, y, true. rewrite fmap_nil. cbn [out tl]. auto.
  - destruct (IHq _ _ _ _ HR) as [s1 [En HR1]]. rewrite En. destruct rq as [|x rq].
    + cbn [out]. rewrite fmap_nil. cbn [out tl] in *. exists s1, snap, steps, y, true. auto.
    + rewrite fmap_out. cbn [out tl] in *.
      destruct (andb (0 <? sf) (S y mod sf =? 0)).
      * pose proof (state_R _ _ _ _ _ HR1) as HR2. destruct (node_state_ q s1) as [c s2] eqn:Es. cbn [snd] in HR2.
        exists s2, c, 0, (S y), false. split; [reflexivity|]. split; [exact HR2|]. discriminate.
      * exists s1, snap, (S steps), (S y), false. split; [reflexivity|]. split; [exact HR1|]. discriminate.
Qed.

Lemma collect_R q (IHq : next_ok q) d e : forall todo s acc b rq, R q e b s rq ->
  exists s', collect_gen (node_next_ q) d todo s acc =
     (if todo <=? length rq then OItem (IList (acc ++ firstn todo rq))
      else match acc ++ rq with [] => OStop | _ => if d then OStop else OItem (IList (acc ++ rq)) end, ROne s')
   /\ R q e (b || (0 <? todo)) s' (skipn todo rq).
Proof.
  induction todo as [|todo IH]; intros s acc b rq HR.
  - exists s. cbn [collect_gen Nat.leb firstn skipn Nat.ltb]. rewrite app_nil_r, orb_false_r. auto.
  - cbn [collect_gen]. destruct (IHq _ _ _ _ HR) as [s1 [En HR1]]. rewrite En.
    replace (b || (0 <? S todo)) with true by (cbn; rewrite orb_true_r; reflexivity).
    destruct rq as [|x rq]; cbn [out tl length Nat.leb firstn skipn] in *.
    + exists s1. rewrite app_nil_r. split; [|exact HR1]. destruct acc; [reflexivity|]. destruct d; reflexivity.
    + destruct (IH s1 (acc ++ [x]) true rq HR1) as [s' [Ec HR']]. cbn [orb] in HR'.
      exists s'. split; [|exact HR']. rewrite Ec. rewrite <- !app_assoc. reflexivity.
Qed.

Lemma chunk_step n d rq : 0 < n ->
  out (chunk_items (S (length rq)) n d rq) =
    (if n <=? length rq then OItem (IList (firstn n rq))
     else match rq with [] => OStop | _ => if d then OStop else OItem (IList rq) end)
  /\ tl (chunk_items (S (length rq)) n d rq) = chunk_items (S (length (skipn n rq))) n d (skipn n rq).
Proof.
  intros Hn. destruct rq as [|x rq].
  - cbn [length chunk_items out tl]. destruct (n <=? 0) eqn:E; [apply Nat.leb_le in E; lia|].
    rewrite skipn_nil. auto.
  - remember (chunk_items (S (length (skipn n (x :: rq)))) n d (skipn n (x :: rq))) as rhs eqn:Erhs.
    cbn [chunk_items]. destruct (length (x :: rq) <? n) eqn:E.
    + apply Nat.ltb_lt in E. destruct (n <=? length (x :: rq)) eqn:E'; [apply Nat.leb_le in E'; lia|].
      subst rhs. rewrite (skipn_all' n (x :: rq)) by lia. destruct d; auto.
    + apply Nat.ltb_ge in E. destruct (n <=? length (x :: rq)) eqn:E'; [|apply Nat.leb_gt in E'; lia].
      cbn [out tl]. split; [reflexivity|]. subst rhs. apply chunk_fuel_irrel; [exact Hn| |lia].
      rewrite skipn_length. cbn [length] in *. lia.
Qed.

Fixpoint drop_until (pr : item -> bool) (l : list item) : list item :=
  match l with [] => [] | x :: l' => if pr x then l' else drop_until pr l' end.

Lemma filter_tl pr l : tl (filter pr l) = filter pr (drop_until pr l).
Proof. induction l as [|x l IH]; [reflexivity|]. cbn [filter drop_until]. destruct (pr x); [reflexivity|exact IH]. Qed.

Lemma filter_loop_R q (IHq : next_ok q) pr ny e : forall fuel s nf b rq, R q e b s rq -> length rq < fuel ->
  exists s' nf' ny', filter_loop_gen (node_next_ q) pr ny fuel s nf
                     = (out (filter (apply_pred pr) rq), RFil s' nf' ny')
    /\ R q e true s' (drop_until (apply_pred pr) rq).
Proof.
  induction fuel as [|fuel IH]; intros s nf b rq HR Hf; [lia|].
  cbn [filter_loop_gen]. destruct (IHq _ _ _ _ HR) as [s1 [En HR1]]. rewrite En.
  destruct rq as [|x rq]; cbn [out tl filter drop_until length] in *.
  - exists s1, nf, ny. auto.
  - destruct (apply_pred pr x).
    + exists s1, nf, (S ny). auto.
    + apply (IH s1 (S nf) true rq HR1). lia.
Qed.

Lemma unb_loop_R q (IHq : next_ok q) e : forall fuel s batch idx cached b rq,
  R q e b s rq -> length rq < fuel -> (idx < length batch -> b = true) ->
  exists s' batch' idx' cached' rq',
    unb_loop_gen (node_next_ q) (node_state_ q) fuel s batch idx cached
      = (out (skipn idx batch ++ flat_map batch_items rq), RUnb s' batch' idx' cached')
    /\ R q e true s' rq'
    /\ tl (skipn idx batch ++ flat_map batch_items rq) = skipn idx' batch' ++ flat_map batch_items rq'.
Proof.
  induction fuel as [|fuel IH]; intros s batch idx cached b rq HR Hf Hb; [lia|].
  cbn [unb_loop_gen]. destruct (length batch <=? idx) eqn:E.
  - apply Nat.leb_le in E. rewrite (skipn_all' _ batch) by exact E. cbn [app].
    pose proof (state_R _ _ _ _ _ HR) as HR0. destruct (node_state_ q s) as [c s1] eqn:Es. cbn [snd] in HR0.
    destruct (IHq _ _ _ _ HR0) as [s2 [En HR2]]. rewrite En.
    destruct rq as [|bb rq]; cbn [out tl flat_map length] in *.
    + exists s2, batch, idx, (Some c), []. split; [reflexivity|]. split; [exact HR2|].
      rewrite (skipn_all' _ batch) by exact E. reflexivity.
    + assert (Hf' : length rq < fuel) by lia.
      destruct (IH s2 (batch_items bb) 0 (Some c) true rq HR2 Hf' (fun _ => eq_refl))
        as [s' [batch' [idx' [cached' [rq' [El [HR' Ht]]]]]]].
      cbn [skipn] in El, Ht.
      exists s', batch', idx', cached', rq'. auto.
  - apply Nat.leb_gt in E. rewrite (Hb E) in HR.
    destruct (nth_error batch idx) as [x|] eqn:Ex; [|apply nth_error_None in Ex; lia].
    rewrite (skipn_S_nth _ _ _ Ex). cbn [app out tl].
    exists s, batch, (S idx), cached, rq. auto.
Qed.

Lemma next_R p : pipe_ok p = true -> next_ok p.
Proof.
  induction p as [xs st|orders|f q IH|f sf q IH|sf q IH|n dr q IH|q IH|pr q IH]; intros Hok e b t rest [Hsuf H];
    apply suffix_tl in Hsuf; cbn [R] in H.
  - destruct H as [pos [-> ->]]. rewrite next_src. destruct (nth_error xs pos) as [x|] eqn:E.
    + rewrite (skipn_S_nth _ _ _ E) in *. cbn [out tl] in *. exists (RSrc (S pos)).
      split; [reflexivity|]. split; [exact Hsuf|]. exists (S pos). auto.
    + apply nth_error_None in E. rewrite (skipn_all' _ xs) in * by exact E. cbn [out tl] in *.
      exists (RSrc pos). split; [reflexivity|]. split; [exact Hsuf|]. exists pos.
      rewrite (skipn_all' _ xs) by exact E. auto.
  - destruct H as [pos [-> ->]]. rewrite next_sampler. destruct (nth_error (epoch_order orders e) pos) as [x|] eqn:E.
    + rewrite (skipn_S_nth _ _ _ E) in *. cbn [out tl] in *. exists (RSampler e true (S pos)).
      split; [reflexivity|]. split; [exact Hsuf|]. exists (S pos). auto.
    + apply nth_error_None in E. rewrite (skipn_all' _ (epoch_order orders e)) in * by exact E. cbn [out tl] in *.
      exists (RSampler e true pos). split; [reflexivity|]. split; [exact Hsuf|]. exists pos.
      rewrite (skipn_all' _ (epoch_order orders e)) by exact E. auto.
  - cbn [pipe_ok] in Hok. specialize (IH Hok).
    destruct H as [s [rq [-> [HR ->]]]]. rewrite next_map. cbn [src_of].
    destruct (IH _ _ _ _ HR) as [s' [En HR']]. rewrite En.
    destruct rq as [|x rq]; cbn [out map tl] in *.
    + exists (ROne s'). split; [reflexivity|]. split; [exact Hsuf|]. exists s', []. auto.
    + exists (ROne s'). split; [reflexivity|]. split; [exact Hsuf|]. exists s', rq. auto.
  - cbn [pipe_ok] in Hok. specialize (IH Hok).
    destruct H as [s [snap [steps [y [stopped [rq [-> [HR [-> Hst]]]]]]]]]. rewrite next_parmap.
    destruct (buf_R q IH (Some f) sf e _ _ snap steps y _ _ HR Hst) as [s' [snap' [steps' [y' [stopped' [En [HR' Hst']]]]]]].
    rewrite fmap_tl in *. exists (RBuf s' snap' steps' y' stopped'). split; [exact En|]. split; [exact Hsuf|].
    exists s', snap', steps', y', stopped', (tl rq). auto.
  - cbn [pipe_ok] in Hok. specialize (IH Hok).
    destruct H as [s [snap [steps [y [stopped [rq [-> [HR [-> Hst]]]]]]]]]. rewrite next_prefetch.
    destruct (buf_R q IH None sf e _ _ snap steps y _ _ HR Hst) as [s' [snap' [steps' [y' [stopped' [En [HR' Hst']]]]]]].
    rewrite fmap_tl in *. exists (RBuf s' snap' steps' y' stopped'). split; [exact En|]. split; [exact Hsuf|].
    exists s', snap', steps', y', stopped', (tl rq). auto.
  - apply pipe_ok_batch in Hok. destruct Hok as [Hn Hok]. specialize (IH Hok).
    destruct H as [s [rq [-> [HR ->]]]]. rewrite next_batch. cbn [src_of].
    destruct (collect_R q IH dr e n s [] b rq HR) as [s' [Ec HR']].
    destruct (chunk_step n dr rq Hn) as [Ho Ht]. rewrite Ht in *. rewrite Ho. cbn [app] in Ec.
    replace (b || (0 <? n)) with true in HR'
      by (apply Nat.ltb_lt in Hn; rewrite Hn, orb_true_r; reflexivity).
    exists (ROne s'). split; [exact Ec|]. split; [exact Hsuf|]. exists s', (skipn n rq). auto.
  - cbn [pipe_ok] in Hok. specialize (IH Hok).
    destruct H as [s [batch [idx [cached [rq [-> [HR [-> Hb]]]]]]]]. rewrite next_unbatch.
    assert (Hf : length rq < pipe_fuel (PUnbatch q)).
    { pose proof (R_length _ _ _ _ _ Hok HR). cbn [pipe_fuel]. lia. }
    destruct (unb_loop_R q IH e _ s batch idx cached b rq HR Hf Hb)
      as [s' [batch' [idx' [cached' [rq' [El [HR' Ht]]]]]]].
    rewrite Ht in *. exists (RUnb s' batch' idx' cached'). split; [exact El|]. split; [exact Hsuf|].
    exists s', batch', idx', cached', rq'. auto.
  - cbn [pipe_ok] in Hok. specialize (IH Hok).
    destruct H as [s [nf [ny [rq [-> [HR ->]]]]]]. rewrite next_filter.
    assert (Hf : length rq < pipe_fuel (PFilter pr q)).
    { pose proof (R_length _ _ _ _ _ Hok HR). cbn [pipe_fuel]. lia. }
    destruct (filter_loop_R q IH pr ny e _ s nf b rq HR Hf) as [s' [nf' [ny' [El HR']]]].
    rewrite filter_tl in *. exists (RFil s' nf' ny'). split; [exact El|]. split; [exact Hsuf|].
    exists s', nf', ny', (drop_until (apply_pred pr) rq). auto.
Qed.

(* ------------------------------------------------------------------ *)
(* reset(None)                                                          *)

(* t is a state on which reset(None) starts epoch e' *)
Definition pre_reset (p : pipe) (t : rt) (e' : nat) : Prop :=
  (t = RUninit /\ e' = 0) \/ exists e b rest, R p e b t rest /\ e' = (if b then S e else e).

Lemma reset_R p : pipe_ok p = true -> forall t e', pre_reset p t e' ->
  R p e' false (node_reset p t None) (sem p e').
Proof.
  induction p as [xs st|orders|f q IH|f sf q IH|sf q IH|n dr q IH|q IH|pr q IH]; intros Hok t e' Hpre;
    (split; [exists []; reflexivity|]).
  - rewrite reset_src. exists 0. auto.
  - rewrite reset_sampler. destruct Hpre as [[-> ->]|[e [b [rest [[_ H] ->]]]]].
    + exists 0. auto.
    + cbn [R] in H. destruct H as [pos [-> _]]. exists 0. auto.
  - cbn [pipe_ok] in Hok.
    assert (Hsub : pre_reset q (src_of t) e').
    { destruct Hpre as [[-> ->]|[e [b [rest [[_ H] ->]]]]]; [left; auto|].
      cbn [R] in H. destruct H as [s [rq [-> [HR _]]]]. right. exists e, b, rq. auto. }
    rewrite reset_map. exists (node_reset q (src_of t) None), (sem q e'). auto.
  - cbn [pipe_ok] in Hok.
    assert (Hsub : pre_reset q (src_of t) e').
    { destruct Hpre as [[-> ->]|[e [b [rest [[_ H] ->]]]]]; [left; auto|].
      cbn [R] in H. destruct H as [s [snap [steps [y [stopped [rq [-> [HR _]]]]]]]]. right. exists e, b, rq. auto. }
    rewrite reset_parmap. pose proof (state_R _ _ _ _ _ (IH Hok _ _ Hsub)) as HR.
    destruct (node_state_ q (node_reset q (src_of t) None)) as [c s1]. cbn [snd] in HR.
    exists s1, c, 0, 0, false, (sem q e'). repeat split; [exact HR|discriminate|discriminate].
  - cbn [pipe_ok] in Hok.
    assert (Hsub : pre_reset q (src_of t) e').
    { destruct Hpre as [[-> ->]|[e [b [rest [[_ H] ->]]]]]; [left; auto|].
      cbn [R] in H. destruct H as [s [snap [steps [y [stopped [rq [-> [HR _]]]]]]]]. right. exists e, b, rq. auto. }
    rewrite reset_prefetch. pose proof (state_R _ _ _ _ _ (IH Hok _ _ Hsub)) as HR.
    destruct (node_state_ q (node_reset q (src_of t) None)) as [c s1]. cbn [snd] in HR.
    exists s1, c, 0, 0, false, (sem q e'). repeat split; [exact HR|discriminate|discriminate].
  - apply pipe_ok_batch in Hok. destruct Hok as [Hn Hok].
    assert (Hsub : pre_reset q (src_of t) e').
    { destruct Hpre as [[-> ->]|[e [b [rest [[_ H] ->]]]]]; [left; auto|].
      cbn [R] in H. destruct H as [s [rq [-> [HR _]]]]. right. exists e, b, rq. auto. }
    rewrite reset_batch. exists (node_reset q (src_of t) None), (sem q e'). auto.
  - cbn [pipe_ok] in Hok.
    assert (Hsub : pre_reset q (src_of t) e').
    { destruct Hpre as [[-> ->]|[e [b [rest [[_ H] ->]]]]]; [left; auto|].
      cbn [R] in H. destruct H as [s [batch [idx [cached [rq [-> [HR _]]]]]]]. right. exists e, b, rq. auto. }
    rewrite reset_unbatch. exists (node_reset q (src_of t) None), [], 0, None, (sem q e').
    repeat split; [apply IH; assumption|]. cbn [length]. lia.
  - cbn [pipe_ok] in Hok.
    assert (Hsub : pre_reset q (src_of t) e').
    { destruct Hpre as [[-> ->]|[e [b [rest [[_ H] ->]]]]]; [left; auto|].
      cbn [R] in H. destruct H as [s [nf [ny [rq [-> [HR _]]]]]]. right. exists e, b, rq. auto. }
    rewrite reset_filter. exists (node_reset q (src_of t) None), 0, 0, (sem q e'). auto.
Qed.

(* ------------------------------------------------------------------ *)
(* running a node                                                       *)

Lemma run_R p : pipe_ok p = true -> forall fuel e b t rest, R p e b t rest ->
  exists t', node_run p fuel t = (firstn fuel rest, t') /\ R p e (b || (0 <? fuel)) t' (skipn fuel rest).
Proof.
  intros Hok. induction fuel as [|fuel IH]; intros e b t rest HR.
  - exists t. cbn [node_run firstn skipn Nat.ltb Nat.leb]. rewrite orb_false_r. auto.
  - replace (b || (0 <? S fuel)) with true by (cbn; rewrite orb_true_r; reflexivity).
    cbn [node_run]. unfold node_next. rewrite (R_not_uninit _ _ _ _ _ HR).
    destruct (next_R p Hok _ _ _ _ HR) as [t1 [En HR1]]. rewrite En.
    destruct rest as [|x rest]; cbn [out tl firstn skipn] in *.
    + exists t1. auto.
    + destruct (IH e true t1 rest HR1) as [t' [Er HR']]. cbn [orb] in HR'. rewrite Er. exists t'. auto.
Qed.

(* (S1) *)
Theorem first_epoch_is_sem : forall p, pipe_ok p = true ->
  fst (node_run p (FUEL p) (node_reset p RUninit None)) = sem p 0.
Proof.
  intros p Hok.
  assert (HR : R p 0 false (node_reset p RUninit None) (sem p 0)) by (apply reset_R; [exact Hok|left; auto]).
  destruct (run_R p Hok (FUEL p) _ _ _ _ HR) as [t' [Er _]]. rewrite Er. cbn [fst].
  apply firstn_all2. pose proof (sem_length p 0 Hok). unfold FUEL. lia.
Qed.

(* (S2) *)
Fixpoint epochs_from (p : pipe) (n : nat) (t : rt) : list (list item) * rt :=
  match n with
  | 0 => ([], t)
  | S n' => let '(l, t1) := node_run p (FUEL p) (node_reset p t None) in
            let '(ls, t2) := epochs_from p n' t1 in (l :: ls, t2)
  end.
Definition epochs_run p n := epochs_from p n RUninit.

Lemma epochs_from_R p : pipe_ok p = true -> forall n t e', pre_reset p t e' ->
  fst (epochs_from p n t) = map (sem p) (seq e' n).
Proof.
  intros Hok. induction n as [|n IH]; intros t e' Hpre; [reflexivity|].
  cbn [epochs_from seq map].
  pose proof (reset_R p Hok t e' Hpre) as HR.
  destruct (run_R p Hok (FUEL p) _ _ _ _ HR) as [t1 [Er HR1]]. rewrite Er.
  unfold FUEL in HR1 at 1. cbn [orb Nat.ltb Nat.leb] in HR1.
  assert (Hpre1 : pre_reset p t1 (S e')) by (right; exists e', true, (skipn (FUEL p) (sem p e')); auto).
  specialize (IH t1 (S e') Hpre1). destruct (epochs_from p n t1) as [ls t2]. cbn [fst] in *.
  rewrite IH. f_equal. apply firstn_all2. pose proof (sem_length p e' Hok). unfold FUEL. lia.
Qed.

Theorem every_epoch_is_sem : forall p n, pipe_ok p = true ->
  fst (epochs_run p n) = map (sem p) (seq 0 n).
Proof. intros p n Hok. apply epochs_from_R; [exact Hok|left; auto]. Qed.

(* ------------------------------------------------------------------ *)
(* (S4) exhaustion is sticky                                            *)

(* states a client can reach without loading a state dict *)
Inductive reachable (p : pipe) : rt -> Prop :=
| reach_uninit : reachable p RUninit
| reach_reset t : reachable p t -> reachable p (node_reset p t None)
| reach_next t : reachable p t -> reachable p (snd (node_next p t))
| reach_state t : reachable p t -> reachable p (snd (node_state p t)).

(* states reached from t by further next() / get_state() calls (no reset) *)
Inductive after (p : pipe) (t : rt) : rt -> Prop :=
| after_refl : after p t t
| after_next t' : after p t t' -> after p t (snd (node_next p t'))
| after_state t' : after p t t' -> after p t (snd (node_state p t')).

Definition good (p : pipe) (t : rt) : Prop := t = RUninit \/ exists e b rest, R p e b t rest.

Lemma good_lazy p t : pipe_ok p = true -> good p t -> exists e b rest, R p e b (lazy_init p t) rest.
Proof.
  intros Hok [->|[e [b [rest HR]]]].
  - exists 0, false, (sem p 0). cbn [lazy_init]. apply reset_R; [exact Hok|left; auto].
  - exists e, b, rest. rewrite (R_not_uninit _ _ _ _ _ HR). exact HR.
Qed.

Lemma reachable_good p : pipe_ok p = true -> forall t, reachable p t -> good p t.
Proof.
  intros Hok t H. induction H as [|t H IH|t H IH|t H IH].
  - left. reflexivity.
  - right. destruct IH as [->|[e [b [rest HR]]]].
    + exists 0, false, (sem p 0). apply reset_R; [exact Hok|left; auto].
    + exists (if b then S e else e), false, (sem p (if b then S e else e)).
      apply reset_R; [exact Hok|]. right. exists e, b, rest. auto.
  - right. destruct (good_lazy p t Hok IH) as [e [b [rest HR]]]. unfold node_next.
    destruct (next_R p Hok _ _ _ _ HR) as [t' [En HR']]. rewrite En. cbn [snd]. exists e, true, (tl rest). exact HR'.
  - right. destruct (good_lazy p t Hok IH) as [e [b [rest HR]]]. unfold node_state.
    exists e, b, rest. apply state_R. exact HR.
Qed.

Lemma after_exhausted p : pipe_ok p = true -> forall e b t, R p e b t [] ->
  forall t', after p t t' -> exists b', R p e b' t' [].
Proof.
  intros Hok e b t HR t' H. induction H as [|t' H IH|t' H IH].
  - exists b. exact HR.
  - destruct IH as [b' HR']. unfold node_next. rewrite (R_not_uninit _ _ _ _ _ HR').
    destruct (next_R p Hok _ _ _ _ HR') as [t2 [En HR2]]. rewrite En. exists true. exact HR2.
  - destruct IH as [b' HR']. unfold node_state. rewrite (R_not_uninit _ _ _ _ _ HR').
    exists b'. apply state_R. exact HR'.
Qed.

Lemma node_run_lazy p fuel t : node_run p (S fuel) t = node_run p (S fuel) (lazy_init p t).
Proof.
  cbn [node_run]. unfold node_next.
  replace (lazy_init p (lazy_init p t)) with (lazy_init p t); [reflexivity|].
  destruct t; try reflexivity. cbn [lazy_init]. destruct p; try reflexivity.
  - rewrite reset_parmap. destruct (node_state_ p (node_reset p (src_of RUninit) None)); reflexivity.
  - rewrite reset_prefetch. destruct (node_state_ p (node_reset p (src_of RUninit) None)); reflexivity.
Qed.

(* After node_run has stopped by exhaustion (it returned fewer items than its fuel) from any state
   reachable by reset(None) / next() / get_state() calls, every further next() returns OStop -- not an
   item, not an error -- however many next() and get_state() calls are made in between. *)
Theorem stop_is_sticky : forall p t fuel l t', pipe_ok p = true -> reachable p t ->
  node_run p fuel t = (l, t') -> length l < fuel ->
  forall t'', after p t' t'' -> fst (node_next p t'') = OStop.
Proof.
  intros p t fuel l t' Hok Hreach Hrun Hlen t'' Hafter.
  assert (Hrun' : node_run p fuel (lazy_init p t) = (l, t'))
    by (destruct fuel as [|fuel]; [lia|rewrite <- node_run_lazy; exact Hrun]).
  destruct (good_lazy p t Hok (reachable_good p Hok t Hreach)) as [e [b [rest HR]]].
  destruct (run_R p Hok fuel _ _ _ _ HR) as [t1 [Er HR1]]. rewrite Er in Hrun'.
  assert (El : l = firstn fuel rest) by congruence.
  assert (Et : t' = t1) by congruence. subst l t1.
  rewrite firstn_length in Hlen.
  rewrite (skipn_all' fuel rest) in HR1 by lia.
  destruct (after_exhausted p Hok _ _ _ HR1 t'' Hafter) as [b' HR2].
  unfold node_next. rewrite (R_not_uninit _ _ _ _ _ HR2).
  destruct (next_R p Hok _ _ _ _ HR2) as [t3 [En _]]. rewrite En. reflexivity.
Qed.

Corollary stop_is_sticky_next : forall p t fuel l t', pipe_ok p = true -> reachable p t ->
  node_run p fuel t = (l, t') -> length l < fuel -> fst (node_next p t') = OStop.
Proof. intros p t fuel l t' Hok Hr Hrun Hl. apply (stop_is_sticky p t fuel l t' Hok Hr Hrun Hl t'). apply after_refl. Qed.

Print Assumptions first_epoch_is_sem.
Print Assumptions every_epoch_is_sem.
Print Assumptions prebatch_invisible.
Print Assumptions prebatch_invisible_sem.
Print Assumptions stop_is_sticky.
Print Assumptions stop_is_sticky_next.
