(* Properties_C11.v — C11: nodes pipelines surface failures and always terminate; they never hang.
   Model: ConcModel.v; proofs: ConcInv.v, ConcLive.v. *)
From PD Require Import Base ConcModel ConcObs ConcInv ConcLive ConcOwner ConcSnap ConcPM ConcProg.
Open Scope nat_scope.

(* every blocking wait is a timed wait: a background thread or consumer that has not finished ALWAYS has a move the
   scheduler can grant (Go when its primitive is enabled, Timeout otherwise) — no thread can be stuck forever on a
   primitive, in any state whatsoever (reachable or not) *)
Theorem C11_every_wait_is_timed : forall c s t,
  pending c s t <> None -> is_move c s (t, Go) = true \/ is_move c s (t, Timeout) = true.
Proof. exact pending_has_move. Qed.
Print Assumptions C11_every_wait_is_timed.

(* once the stop event of an iterator is set (exhaustion, error in a Prefetcher, _shutdown), a next() call on it returns
   StopIteration at its first step: "after an error or exhaustion, further next() calls return promptly" *)
Theorem C11_next_after_stop_is_prompt : forall c m g,
  g_stop g = true -> g_c g = CChk -> snd (cstep c m g) = Some OutStop.
Proof. exact next_after_stop_prompt. Qed.
Print Assumptions C11_next_after_stop_is_prompt.

(* some thread always has a move (weak: every wait is timed, so this alone does not exclude a livelock of polls) *)
Definition C11_next_returns_statement : Prop :=
  forall c script sched,
    let s := run c sched (init script) in
    s_cdone s = false -> exists t m, is_move c s (t, m) = true.

(* no reachable state is a deadlock while the consumer still has work: some thread always has a move *)
Theorem C11_no_deadlock : C11_next_returns_statement.
Proof. exact no_deadlock. Qed.
Print Assumptions C11_no_deadlock.

(* ---- no livelock: a consumer blocked in next() is always being served ----
   Every wait is a timed poll, so a hang of this pipeline would be a LIVELOCK: a reachable state in which the consumer
   waits for an entry and every background thread can only poll (time out and re-check).  The theorems below exclude it,
   for every reachable state of every interleaving (primitive granularity, timeouts included) in which no join() of an old
   read thread timed out (those schedules are known finding D10's):
   whenever the consumer of the current iterator waits at its queue get with nothing to take and the stop event unset,
   some thread of that iterator has NOT finished and can ADVANCE — its next data-path primitive (semaphore acquire,
   next(source), queue get/put) is enabled, i.e. the entry the consumer waits for is in flight and movable, or the
   reader can produce it.  [r_adv/w_adv/s_adv; C11_adv_is_enabled ties them to the model's own enabledness.]
   Invariants behind it (ConcProg.v): every index of the window [cur_idx, next index) is in flight exactly once; the
   sorter never buffers the index it waits for; no worker/sorter exits while the stop event is unset; the reader exits
   only after the terminal entry; permits + in-flight = bound.  Also: once the epoch is over for the consumer
   (StopIteration or a source error was delivered) it never waits at the queue again. *)
Theorem C11_parallel_mapper_waiting_next_is_served : forall c, k_pm c = true -> k_inorder c = true -> 0 < k_nw c -> 0 < kmax c ->
  forall script sched, jt_free c (init script) sched = true ->
  forall g, cur (run c sched (init script)) = Some g ->
  g_stop g = false -> g_c g = CGet -> g_q3 g = [] -> r_adv g \/ w_adv g \/ s_adv g.
Proof. exact waiting_next_is_served. Qed.
Print Assumptions C11_parallel_mapper_waiting_next_is_served.

Theorem C11_prefetcher_waiting_next_is_served : forall c, k_pm c = false -> 0 < kmax c ->
  forall script sched, jt_free c (init script) sched = true ->
  forall g, cur (run c sched (init script)) = Some g ->
  g_c g = CGet -> g_q1 g = [] -> r_adv g.
Proof. exact pf_waiting_next_is_served. Qed.
Print Assumptions C11_prefetcher_waiting_next_is_served.

(* the constructor's handshake (the consumer waits for the reader's initial snapshot) is served by the reader *)
Theorem C11_parallel_mapper_waiting_init_is_served : forall c, k_pm c = true -> k_inorder c = true ->
  forall script sched, jt_free c (init script) sched = true ->
  forall g, cur (run c sched (init script)) = Some g ->
  (g_c g = CInit \/ g_c g = CSleep) -> g_store g = [] -> r_adv g.
Proof. exact waiting_init_is_served. Qed.
Print Assumptions C11_parallel_mapper_waiting_init_is_served.

(* after the terminal entry the next next() does not wait: it finds the reader finished and every permit back *)
Theorem C11_after_terminal_next_stops : forall c m g pos, PGinv c g pos -> g_term g = true -> g_c g = CChk2 -> g_mpstop g = false ->
  g_c (fst (cstep c m g)) = CStopA.
Proof. exact after_terminal_next_stops. Qed.
Print Assumptions C11_after_terminal_next_stops.

(* "can advance" implies the thread's pending primitive is enabled in the model (Go is offered to the scheduler) *)
Theorem C11_adv_is_enabled : forall g,
  (r_adv g -> exists l tw, r_pending g = Some (l, true, tw)) /\
  (w_adv g -> exists i l tw, w_pending g i = Some (l, true, tw)) /\
  (s_adv g -> exists l tw, s_pending g = Some (l, true, tw)).
Proof. intros g. split; [apply r_adv_enabled | split; [apply w_adv_enabled | apply s_adv_enabled]]. Qed.
Print Assumptions C11_adv_is_enabled.

(* ---- failures surface, at the right place ----
   What next() is about to return is exactly what the (mapped) source holds at the CONSUMER's position: the item, the
   map_fn error, the source's own error, or the end of the source.  So an error surfaces at the failing position — every
   earlier item having been delivered, in order (C04) — and is never replaced by a clean StopIteration; StopIteration is
   reported only at the true end of the source.  Every reachable state of every interleaving without a reader-join timeout.
   [CRel x i / CRelErr e i / CRelStop: the consumer holds the entry and is releasing its permit before returning it] *)
Theorem C11_parallel_mapper_next_returns_what_is_at_the_position : forall c, k_pm c = true -> k_inorder c = true ->
  forall script sched, jt_free c (init script) sched = true ->
  forall g, cur (run c sched (init script)) = Some g ->
  match g_c g with
  | CRel x i => i = g_recv g /\ PItem x = mpay c (g_base g + g_recv g)
  | CRelErr e i => i = g_recv g /\ PErr e = mpay c (g_base g + g_recv g)
  | CRelStop => mpay c (g_base g + g_recv g) = PStop
  | _ => True
  end.
Proof. exact next_returns_what_is_at_the_position. Qed.
Print Assumptions C11_parallel_mapper_next_returns_what_is_at_the_position.

Theorem C11_prefetcher_next_returns_what_is_at_the_position : forall c, k_pm c = false ->
  forall script sched, jt_free c (init script) sched = true ->
  forall g, cur (run c sched (init script)) = Some g ->
  match g_c g with
  | CRel x i => i = g_recv g /\ PItem x = spay c (g_base g + g_recv g)
  | CRelErr e i => i = g_recv g /\ PErr e = spay c (g_base g + g_recv g)
  | CRelStop => spay c (g_base g + g_recv g) = PStop
  | _ => True
  end.
Proof. exact pf_next_returns_what_is_at_the_position. Qed.
Print Assumptions C11_prefetcher_next_returns_what_is_at_the_position.

(* ---- bounded work ----
   rho : gen -> nat (ConcProg.v) weighs every entry by the number of data-path moves it still needs (11 per entry the source
   can still yield, ..., 2 in the sorter's output, 1 while the consumer holds its permit).  NO move of ANY thread of an
   iterator — timeouts, polls, shutdown included, in ANY state — increases it, and every successful data-path move
   (semaphore acquire, next(source), a queue put / get that does not time out, semaphore release) strictly decreases it.
   So the threads of one iterator make at most rho(g) such moves under any schedule; with the "is served" theorems: a
   scheduler that lets a thread that can advance run makes every next() return. *)
Theorem C11_rank_reader : forall c m g pos, RPos g pos ->
  rho c (fst (rstep c m g pos)) <= rho c g /\ (r_data m g -> rho c (fst (rstep c m g pos)) < rho c g).
Proof. exact rho_rstep. Qed.
Print Assumptions C11_rank_reader.
Theorem C11_rank_worker : forall c i m g,
  rho c (wstep c i m g) <= rho c g /\ (w_data i m g -> rho c (wstep c i m g) < rho c g).
Proof. exact rho_wstep. Qed.
Print Assumptions C11_rank_worker.
Theorem C11_rank_sorter : forall c m g,
  rho c (sstep c m g) <= rho c g /\ (s_data m g -> rho c (sstep c m g) < rho c g).
Proof. exact rho_sstep. Qed.
Print Assumptions C11_rank_sorter.
Theorem C11_rank_consumer : forall c m g,
  rho c (fst (cstep c m g)) <= rho c g /\ (c_data c m g -> rho c (fst (cstep c m g)) < rho c g).
Proof. exact rho_cstep. Qed.
Print Assumptions C11_rank_consumer.

(* non-vacuity: reachable states in which the consumer does wait, served respectively by the reader (it is pulling), by a
   worker (it holds the mapped entry) and by the sorter (the entry is in its input queue) *)
Definition c11_rr (n : nat) : list (tid * mode) :=
  firstn n (concat (repeat ([(TC, Go); (TG 0 GR, Go); (TG 0 (GW 0), Go); (TG 0 (GW 1), Go); (TG 0 GS, Go)]) 20)).
Definition c11_cfg : cfg :=
  {| k_pm := true; k_nw := 2; k_inorder := true; k_mc := None; k_sf := 2; k_xs := [10; 11; 12; 13; 14]; k_err := None; k_f := udf 100 [] |}.
Definition c11_waiting (n : nat) : bool :=
  let sc := [KReset None; KNext; KNext] in
  jt_free c11_cfg (init sc) (c11_rr n) &&
  match cur (run c11_cfg (c11_rr n) (init sc)) with
  | Some g => negb (g_stop g) && (match g_c g with CGet => true | _ => false end) && (match g_q3 g with [] => true | _ => false end)
  | None => false
  end.
Example C11_waiting_states_exist : c11_waiting 21 = true /\ c11_waiting 28 = true /\ c11_waiting 34 = true.
Proof. vm_compute. repeat split. Qed.
