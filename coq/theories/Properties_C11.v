(* Properties_C11.v — C11: nodes pipelines surface failures and always terminate; they never hang.
   Model: ConcModel.v; proofs: ConcInv.v, ConcLive.v. *)
From PD Require Import Base ConcModel ConcObs ConcInv ConcLive.
Open Scope nat_scope.

(* every blocking wait is a timed wait: a background thread or consumer that has not finished ALWAYS has a move the
   scheduler can grant (Go when its primitive is enabled, Timeout otherwise) — no thread can be stuck forever on a
   primitive, in any state whatsoever (reachable or not) *)
Theorem C11_every_wait_is_timed : forall c s t,
  pending c s t <> None -> is_move c s (t, Go) = true \/ is_move c s (t, Timeout) = true.
Proof. exact pending_has_move. Qed.
Print Assumptions C11_every_wait_is_timed.

(* once the stop event of an iterator is set (exhaustion, error in a Prefetcher, _shutdown), a next() call on it returns
   StopIteration at its first step: "after an error or exhaustion, further next() calls return promptly" *)
Theorem C11_next_after_stop_is_prompt : forall c m g,
  g_stop g = true -> g_c g = CChk -> snd (cstep c m g) = Some OutStop.
Proof. exact next_after_stop_prompt. Qed.
Print Assumptions C11_next_after_stop_is_prompt.

(* FULL statement (target): bounded-fair termination of every next() — see DESIGN.md 4 C11 *)
Definition C11_next_returns_statement : Prop :=
  forall c script sched,
    let s := run c sched (init script) in
    s_cdone s = false -> exists t m, is_move c s (t, m) = true.

(* no reachable state is a deadlock while the consumer still has work: some thread always has a move *)
Theorem C11_no_deadlock : C11_next_returns_statement.
Proof. exact no_deadlock. Qed.
Print Assumptions C11_no_deadlock.
