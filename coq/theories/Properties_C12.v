(* Properties_C12.v — C12: read-ahead is bounded and the source is only ever driven by one thread.
   Model: ConcModel.v (reader / workers / sorter / consumer at the granularity of their primitives, generations of
   iterators over one shared source, join with timeout). Proofs: ConcInv.v. *)
From PD Require Import Base ConcModel ConcObs ConcInv ConcOwner.
Open Scope nat_scope.

(* Read-ahead bound, FULL statement: for every configuration (Prefetcher or ParallelMapper, any num_workers, in_order or
   not, any prefetch_factor / max_concurrent, any snapshot_frequency, any source incl. failing ones, any map function),
   every consumer script (next / state_dict / reset / reset(loaded state) / shutdown in any order) and EVERY schedule
   (timeouts and join timeouts included), every iterator generation in the reached state — zombies of earlier
   iterators included — has at most kmax = prefetch_factor resp. max_concurrent (default 2*num_workers) items that
   were pulled from the source and not yet handed to the consumer (in queues, in the sorter's buffer, or in a thread's
   hand), and its semaphore never exceeds its initial value. *)
Theorem C12_readahead_bounded : forall c script sched g,
  In g (s_gens (run c sched (init script))) -> in_flight g <= kmax c /\ g_sem g <= kmax c.
Proof. exact readahead_bounded. Qed.
Print Assumptions C12_readahead_bounded.

(* the accounting identity itself: permits + in-flight items = the bound, in every reachable state *)
Theorem C12_semaphore_accounting : forall c script sched,
  Forall (fun g => g_sem g + in_flight g = kmax c) (s_gens (run c sched (init script))).
Proof. intros c script sched. exact (proj1 (inv_reachable c script sched)). Qed.
Print Assumptions C12_semaphore_accounting.

(* Single ownership of the source, FULL statement (what the property asks): no schedule ever has two threads inside the
   source.  It is FALSE of the faithful model, because _shutdown joins the old read thread with a timeout and reset()
   proceeds when the join times out (known finding D10). *)
Definition C12_single_owner_statement : Prop :=
  forall c script sched, s_overlap (run c sched (init script)) = false.

Definition d10_cfg : cfg :=
  {| k_pm := false; k_nw := 0; k_inorder := true; k_mc := Some 1; k_sf := 1; k_xs := [5; 6]; k_err := None; k_f := udf 0 [] |}.
Definition d10_script : list cop := [KReset None; KNext; KReset None; KNext; KShutdown].
Definition d10_sched : list (tid * mode) :=
  [(TC, Go); (TG 0 GR, Go); (TG 0 GR, Go); (TC, Go); (TG 0 GR, Go); (TG 0 GR, Go); (TG 0 GR, Go); (TG 0 GR, Go); (TG 0 GR, Go);
   (TC, Go); (TC, Go); (TG 0 GR, Go); (TG 0 GR, Timeout); (TC, Go); (TG 0 GR, Go); (TC, Go); (TG 0 GR, Go); (TC, Timeout); (TC, Go);
   (TC, Timeout); (TG 1 GR, Go); (TC, Timeout); (TC, Timeout); (TG 1 GR, Go); (TG 0 GR, Go); (TG 0 GR, Go); (TG 1 GR, Go);
   (TG 1 GR, Go); (TG 0 GR, Go); (TG 1 GR, Go); (TC, Go); (TG 1 GR, Go); (TC, Go); (TG 0 GR, Go); (TG 1 GR, Go); (TG 1 GR, Go);
   (TC, Go); (TC, Go); (TC, Go); (TG 1 GR, Go); (TG 1 GR, Go); (TG 1 GR, Go); (TC, Go)].

(* the witness: a schedule recorded from the REAL threads (Prefetcher over [5;6], prefetch_factor 1: next, reset, next) in
   which the first join times out while the old reader is parked inside source.next(); the second epoch then starts at
   item 6 — the first item was taken by the old reader *)
Theorem C12_single_owner_refuted : ~ C12_single_owner_statement.
Proof.
  intros H. specialize (H d10_cfg d10_script d10_sched). vm_compute in H. discriminate.
Qed.
Print Assumptions C12_single_owner_refuted.

Example d10_second_epoch_loses_first_item :
  s_obs (run d10_cfg d10_sched (init d10_script)) = [ObsReset; ObsItem 5; ObsReset; ObsItem 6; ObsShut].
Proof. vm_compute. reflexivity. Qed.

(* Single ownership, PROVED under the one hypothesis the refutation shows to be necessary: along ANY schedule in which
   _shutdown's join() on the old READ thread never times out while that thread is alive (jt_free), for Prefetcher and
   ParallelMapper, any parameters, any script of next / state_dict / reset / reset(loaded state) / shutdown, errors
   included: no thread ever enters source.next / reset / state_dict while another one is inside next() — so every
   epoch and every resume starts on a source nobody else is reading.  (Timeouts of every other wait, and join timeouts
   on workers and sorter, are allowed.) *)
Theorem C12_single_owner_partial : forall c script sched,
  jt_free c (init script) sched = true -> s_overlap (run c sched (init script)) = false.
Proof. exact single_owner. Qed.
Print Assumptions C12_single_owner_partial.

(* the hypothesis is exactly what the D10 witness violates, and it is satisfiable on histories with resets *)
Example d10_is_not_jt_free : jt_free d10_cfg (init d10_script) d10_sched = false.
Proof. vm_compute. reflexivity. Qed.
Definition rr2 (n : nat) : list (tid * mode) := concat (repeat [(TC, Go); (TG 0 GR, Go); (TG 1 GR, Go)] n).
Example jt_free_nonvacuous :
  jt_free d10_cfg (init d10_script) (rr2 40) = true /\
  s_obs (run d10_cfg (rr2 40) (init d10_script)) = [ObsReset; ObsItem 5; ObsReset; ObsItem 5; ObsShut].
Proof. vm_compute. split; reflexivity. Qed.
