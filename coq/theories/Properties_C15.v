(* Properties_C15.v — C15: stateful samplers resume exactly and keep torch sampler semantics.
   Statements only; every theorem is closed by [exact] of a lemma from SamplerProofs.v and
   followed by Print Assumptions.  Model: SamplerModel.v (sampler.py). *)
From PD Require Import Base SamplerModel SamplerProofs.
From Coq Require Import Permutation.

(* RandomSampler: loading the state taken after ANY k indices into a fresh iterator (whose
   creation drew from whatever generator state gx) reconstructs the interrupted iterator:
   permutation, position, counters and live generator. *)
Theorem C15_rs_load_exact :
  forall (G : Type) (randperm randint : G -> nat -> list nat * G) (c : rs_cfg),
  (forall g, fst (get_perm G randperm randint c g) <> []) ->
  forall (g gx : G) (k : nat), k <= rs_num_samples c ->
  rs_load G randperm randint c (rs_init G randperm randint c gx)
          (rs_state_dict G (rs_advance G randperm randint c k (rs_init G randperm randint c g)))
  = rs_advance G randperm randint c k (rs_init G randperm randint c g).
Proof. exact rs_load_exact. Qed.
Print Assumptions C15_rs_load_exact.

(* ... hence it yields exactly the remaining indices, with or without replacement *)
Theorem C15_rs_resume_stream :
  forall (G : Type) (randperm randint : G -> nat -> list nat * G) (c : rs_cfg),
  (forall g, fst (get_perm G randperm randint c g) <> []) ->
  forall (g gx : G) (k : nat), k <= rs_num_samples c ->
  iter_run (rs_next_opt G randperm randint c) (S (rs_num_samples c - k))
     (rs_load G randperm randint c (rs_init G randperm randint c gx)
        (rs_state_dict G (rs_advance G randperm randint c k (rs_init G randperm randint c g))))
  = skipn k (iter_run (rs_next_opt G randperm randint c) (S (rs_num_samples c))
                      (rs_init G randperm randint c g)).
Proof. exact rs_resume_stream. Qed.
Print Assumptions C15_rs_resume_stream.

(* ... and the following epoch is unaffected: same live generator at the end of the epoch *)
Theorem C15_rs_next_epoch_unaffected :
  forall (G : Type) (randperm randint : G -> nat -> list nat * G) (c : rs_cfg),
  (forall g, fst (get_perm G randperm randint c g) <> []) ->
  forall (g gx : G) (k : nat), k <= rs_num_samples c ->
  rs_g (rs_advance G randperm randint c (rs_num_samples c - k)
          (rs_load G randperm randint c (rs_init G randperm randint c gx)
             (rs_state_dict G (rs_advance G randperm randint c k (rs_init G randperm randint c g)))))
  = rs_g (rs_advance G randperm randint c (rs_num_samples c) (rs_init G randperm randint c g)).
Proof. exact rs_next_epoch_unaffected. Qed.
Print Assumptions C15_rs_next_epoch_unaffected.

(* without replacement an epoch visits each index exactly once (torch.randperm returns a
   permutation: hypothesis about torch, validated by the correspondence run) *)
Theorem C15_rs_epoch_visits_each_once :
  forall (G : Type) (randperm randint : G -> nat -> list nat * G) (n : nat),
  (forall g, length (fst (randperm g n)) = n) ->
  (forall g, Permutation (fst (randperm g n)) (seq 0 n)) ->
  forall g,
  Permutation
    (iter_run (rs_next_opt G randperm randint {| rs_n := n; rs_replacement := false; rs_num_samples := n |})
       (S n) (rs_init G randperm randint {| rs_n := n; rs_replacement := false; rs_num_samples := n |} g))
    (seq 0 n).
Proof. exact rs_epoch_visits_each_once. Qed.
Print Assumptions C15_rs_epoch_visits_each_once.

(* BatchSampler groups exactly like torch's BatchSampler (chunk = its list specification) *)
Theorem C15_bs_is_torch :
  forall (A : Type) (bs : nat) (drop : bool), 0 < bs ->
  forall xs : list A, bs_run_list bs drop xs 0 = chunk bs drop xs.
Proof. exact bs_is_torch. Qed.
Print Assumptions C15_bs_is_torch.

(* BatchSampler over a stateless sampler: fast-forwarding by the saved samples_yielded after any
   j batches yields exactly the remaining batches *)
Theorem C15_bs_resume_ff :
  forall (A : Type) (bs : nat) (drop : bool), 0 < bs ->
  forall (xs : list A) (j f : nat),
  let s0 := {| bs_inner := xs; bs_samples_yielded := 0 |} in
  let sj := iter_steps (bs_next list_next bs drop) j s0 in
  j <= length (iter_run (bs_next list_next bs drop) (j + f) s0) ->
  iter_run (bs_next list_next bs drop) f (bs_load_ff xs (bs_samples_yielded sj))
  = skipn j (iter_run (bs_next list_next bs drop) (j + f) s0).
Proof. exact bs_resume_ff. Qed.
Print Assumptions C15_bs_resume_ff.

(* StatefulDistributedSampler: epoch = torch's index list for the rank; state = count in this
   epoch at every point (also right after iter() of a later epoch); resume = suffix *)
Theorem C15_ds_epoch_is_parent :
  forall idxs s, ds_next_yielded s = None ->
  iter_run ds_next (S (length idxs)) (ds_iter idxs s) = idxs.
Proof. exact ds_epoch_is_parent. Qed.
Print Assumptions C15_ds_epoch_is_parent.

Theorem C15_ds_resume_at_any_point :
  forall idxs s j fresh, ds_next_yielded s = None -> j <= length idxs ->
  iter_run ds_next (S (length idxs))
     (ds_iter idxs (ds_load fresh (ds_state_dict (fst (iter_steps ds_next j (ds_iter idxs s))))))
  = skipn j idxs.
Proof. exact ds_resume_at_any_point. Qed.
Print Assumptions C15_ds_resume_at_any_point.

(* regression witness for D11 (fixed by 14c8f14): the old lazy-generator __iter__ *)
Theorem C15_ds_lazy_refuted :
  exists idxs s, ds_next_yielded s = None /\ ds_state_after_iter_lazy idxs s <> 0.
Proof. exact ds_lazy_refuted. Qed.
Print Assumptions C15_ds_lazy_refuted.

(* non-vacuity: the hypotheses are met by a concrete generator (a counter) *)
Example C15_nonvacuous :
  let randperm := fun (g n : nat) => (rev (seq 0 n), S g) in
  let randint := fun (g n : nat) => (repeat (g mod n) 32, S g) in
  let c := {| rs_n := 5; rs_replacement := false; rs_num_samples := 7 |} in
  (forall g, fst (get_perm nat randperm randint c g) <> []) /\
  iter_run (rs_next_opt nat randperm randint c) 8 (rs_init nat randperm randint c 0) = [4;3;2;1;0;4;3] /\
  bs_run_list 3 false [1;2;3;4;5;6;7] 0 = [[1;2;3];[4;5;6];[7]] /\
  bs_run_list 3 true [1;2;3;4;5;6;7] 0 = [[1;2;3];[4;5;6]].
Proof. cbv zeta. repeat split; try reflexivity. intros g; cbn; discriminate. Qed.
