(* WeightedObs.v — observation functions for the C14 correspondence run. *)
From PD Require Import Base WeightedModel.
Open Scope string_scope. Open Scope list_scope. Open Scope nat_scope.

Definition table_choice (tbl : list (list nat)) (e i : nat) : nat := nth i (nth e tbl []) 0.

Definition obs_of_wout (o : wout) : obs :=
  match o with
  | WItem s x => OL [OS "item"; onat s; onat x]
  | WStop => OS "stop"
  | WFuel => OS "fuel"
  end.

Definition obs_of_wsd (d : wsd) : obs :=
  OL [olist onat (sd_pos d); olist OB (sd_exh d); onat (sd_batch d); onat (sd_offset d); onat (sd_yielded d); onat (sd_epoch d)].

Inductive wop := WNext | WState | WLoad (i : nat) | WReset.

Fixpoint w_history (ch : nat -> nat -> nat) (c : wcfg) (fuel : nat) (ops : list wop) (s : wst) (saved : list wsd) : list obs :=
  match ops with
  | [] => []
  | WNext :: r => let '(o, s') := w_next ch c fuel s in obs_of_wout o :: w_history ch c fuel r s' saved
  | WState :: r => let d := w_get_state c s in OL [OS "state"; obs_of_wsd d] :: w_history ch c fuel r s (saved ++ [d])
  | WLoad i :: r =>
      let d := nth i saved (w_get_state c s) in
      OS "load" :: w_history ch c fuel r (w_reset_state c d) saved
  | WReset :: r => OS "reset" :: w_history ch c fuel r (w_reset_fresh c (Some s)) saved
  end.

Definition c14_obs (tbl : list (list nat)) (c : wcfg) (fuel : nat) (ops : list wop) : obs :=
  OL (w_history (table_choice tbl) c fuel ops (w_reset_fresh c None) []).
