(* SdlFault.v — worker death in the multi-process StatefulDataLoader iterator (C09).
   Extends SdlModel's _next_data with the fault alphabet of the wait loop (_get_data / _try_get_data):
     FArrive ch : the next result of a live worker arrives (choice among the candidates, as in SdlModel)
     FDie w     : worker w dies (killed, crashed, exited) — it answers nothing further
     FTimeout   : the poll of the result queue expires: _try_get_data looks for dead workers that are still
                  expected to work (workers_status) and raises RuntimeError if it finds one
   The main-process functions (skip_retired, arrive, process_data, try_put_index) are SdlModel's, unchanged. *)
From PD Require Import Base SdlModel.
Open Scope string_scope. Open Scope list_scope. Open Scope nat_scope.

Inductive fev := FArrive (ch : nat) | FDie (w : nat) | FTimeout.
Inductive foutcome := FO (o : outcome) | FWorkerDied (ws : list nat).

Definition crashed_expected (s : ms) (crashed : list bool) : list nat :=
  filter (fun w => nth w (m_status s) false && nth w crashed false) (seq 0 (length (m_status s))).

(* workers whose next result can arrive: SdlModel's candidates that have not died *)
Definition fcandidates (s : ms) (crashed : list bool) : list nat :=
  filter (fun w => negb (nth w crashed false)) (candidates s).

Definition fset {A} := @SdlModel.set_nth A.

Fixpoint next_data_f (fuel : nat) (c : cfg) (s : ms) (crashed : list bool) (sched : list fev)
  : foutcome * ms * list bool * list fev :=
  match fuel with
  | 0 => (FO OFuel, s, crashed, sched)
  | S f =>
      let '(found, s) := skip_retired (S (m_send s)) s in
      if negb found then
        (FO OStop, {| m_send := m_send s; m_rcvd := m_rcvd s; m_info := m_info s; m_outst := m_outst s;
                      m_status := map (fun _ => false) (m_status s);
                      m_cyc := m_cyc s; m_ny := m_ny s; m_siy := m_siy s; m_samp := m_samp s; m_msnaps := m_msnaps s;
                      m_last := m_last s; m_wsnap := m_wsnap s; m_snapshot := m_snapshot s; m_finished := true;
                      m_workers := m_workers s; m_assert := m_assert s |}, crashed, sched)
      else
        match info_get (m_info s) (m_rcvd s) with
        | Some (w, Some (r, st)) =>
            let s1 := upd_core s (S (m_rcvd s)) (info_del (m_info s) (m_rcvd s)) (m_wsnap s) in
            match r with
            | RStop => next_data_f f c (upd_core s1 (m_rcvd s1) (m_info s1)
                                          (match st with Some x => fset (m_wsnap s1) w x | None => m_wsnap s1 end)) crashed sched
            | _ => let '(o, s2) := process_data c s1 r w st in (FO o, s2, crashed, sched)
            end
        | _ =>
            if m_outst s =? 0 then (FO (OAssert "assert tasks_outstanding > 0"), s, crashed, sched) else
            (* the wait loop of _get_data *)
            let ev := match sched with
                      | e :: _ => e
                      | [] => match fcandidates s crashed with [] => FTimeout | _ => FArrive 0 end
                      end in
            let sched' := match sched with [] => [] | _ :: r => r end in
            match ev with
            | FDie w => next_data_f f c s (fset crashed w true) sched'
            | FTimeout =>
                match crashed_expected s crashed with
                | [] => match sched, fcandidates s crashed with
                        | [], [] => (FO ODeadlock, s, crashed, sched)       (* nothing can ever happen: main would poll forever *)
                        | _, _ => next_data_f f c s crashed sched'           (* (False, None): poll again *)
                        end
                | ws => (FWorkerDied ws,
                         {| m_send := m_send s; m_rcvd := m_rcvd s; m_info := m_info s; m_outst := m_outst s;
                            m_status := fold_left (fun st w => fset st w false) ws (m_status s);
                            m_cyc := m_cyc s; m_ny := m_ny s; m_siy := m_siy s; m_samp := m_samp s; m_msnaps := m_msnaps s;
                            m_last := m_last s; m_wsnap := m_wsnap s; m_snapshot := m_snapshot s; m_finished := m_finished s;
                            m_workers := m_workers s; m_assert := m_assert s |}, crashed, sched')
                end
            | FArrive ch =>
                match fcandidates s crashed with
                | [] => next_data_f f c s crashed sched'                   (* nothing to arrive: the poll keeps waiting *)
                | cands =>
                    let w := nth (ch mod length cands) cands 0 in
                    let '((idx, r, st), s1) := arrive c s w in
                    let s2 := match r with
                              | RStop =>
                                  let s' := {| m_send := m_send s1; m_rcvd := m_rcvd s1; m_info := m_info s1; m_outst := m_outst s1;
                                               m_status := fset (m_status s1) w false; m_cyc := m_cyc s1; m_ny := m_ny s1;
                                               m_siy := m_siy s1; m_samp := m_samp s1; m_msnaps := m_msnaps s1; m_last := m_last s1;
                                               m_wsnap := m_wsnap s1; m_snapshot := m_snapshot s1; m_finished := m_finished s1;
                                               m_workers := m_workers s1; m_assert := m_assert s1 |} in
                                  try_put_index c s'
                              | _ => s1
                              end in
                    if negb (idx =? m_rcvd s2) then
                      next_data_f f c (upd_core s2 (m_rcvd s2) (info_set (m_info s2) idx (w, Some (r, st))) (m_wsnap s2)) crashed sched'
                    else
                      let s3 := upd_core s2 (S (m_rcvd s2)) (info_del (m_info s2) idx) (m_wsnap s2) in
                      match r with
                      | RStop => next_data_f f c (upd_core s3 (m_rcvd s3) (m_info s3)
                                                    (match st with Some x => fset (m_wsnap s3) w x | None => m_wsnap s3 end)) crashed sched'
                      | _ => let '(o, s4) := process_data c s3 r w st in (FO o, s4, crashed, sched')
                      end
                end
            end
        end
  end.

Definition sdl_next_f (c : cfg) (s : ms) (crashed : list bool) (sched : list fev) :=
  next_data_f (FUEL c s + length sched) c s crashed sched.

(* a history of next() calls under one fault schedule, until an error or StopIteration *)
Fixpoint run_f (n : nat) (c : cfg) (s : ms) (crashed : list bool) (sched : list fev) : list foutcome :=
  match n with
  | 0 => []
  | S n' =>
      let '(o, s', cr', sched') := sdl_next_f c s crashed sched in
      match o with
      | FO (OBatch _) | FO OErr => o :: run_f n' c s' cr' sched'
      | _ => [o]
      end
  end.

Definition obs_of_foutcome (o : foutcome) : obs :=
  match o with
  | FO (OBatch b) => OL [OS "batch"; olist onat b]
  | FO OStop => OS "stop"
  | FO OErr => OS "err"
  | FO (OAssert _) => OS "assert"
  | FO ODeadlock => OS "deadlock"
  | FO OFuel => OS "fuel"
  | FWorkerDied ws => OL [OS "worker_died"; olist onat ws]
  end.
Definition fault_obs (c : cfg) (n : nat) (sched : list fev) : obs :=
  olist obs_of_foutcome (run_f n c (sdl_fresh c) (repeat false (c_W c)) sched).

(* the implementation cannot see which workers the poll blamed, only that the error is a worker death *)
Definition obs_short (o : foutcome) : obs :=
  match o with FWorkerDied _ => OL [OS "worker_died"] | _ => obs_of_foutcome o end.
Definition fault_obs_short (c : cfg) (n : nat) (sched : list fev) : obs :=
  olist obs_short (run_f n c (sdl_fresh c) (repeat false (c_W c)) sched).

(* ------------------------------------------------------------------------------------------------------------ *)
(* Theorems about the wait loop *)

(* skip_retired stops only at a task that already has data or whose worker is still expected to work; it reports
   "nothing left" only when every task sent has been accounted for *)
Lemma skip_retired_found fuel s s' :
  skip_retired fuel s = (true, s') ->
  exists w r, info_get (m_info s') (m_rcvd s') = Some (w, r) /\
              ((exists x, r = Some x) \/ nth w (m_status s') false = true) /\ m_status s' = m_status s.
Proof.
  revert s. induction fuel as [|f IH]; intros s H; cbn [skip_retired] in H; [discriminate|].
  destruct (m_rcvd s <? m_send s); [|discriminate].
  destruct (info_get (m_info s) (m_rcvd s)) as [[w r]|] eqn:E.
  - destruct ((match r with Some _ => true | None => false end) || nth w (m_status s) false) eqn:Eb.
    + injection H as <-. exists w, r. split; [exact E|]. split; [|reflexivity].
      apply orb_true_iff in Eb as [Hb|Hb]; [left; destruct r; [eauto | discriminate] | right; exact Hb].
    + apply IH in H. destruct H as (w' & r' & H1 & H2 & H3). exists w', r'. repeat split; assumption.
  - apply IH in H. destruct H as (w' & r' & H1 & H2 & H3). exists w', r'. repeat split; assumption.
Qed.

Lemma skip_retired_exhausted fuel s s' :
  skip_retired fuel s = (false, s') -> m_send s - m_rcvd s < fuel -> m_send s' <= m_rcvd s'.
Proof.
  revert s. induction fuel as [|f IH]; intros s H Hf; [lia|]. cbn [skip_retired] in H.
  destruct (m_rcvd s <? m_send s) eqn:El.
  - apply Nat.ltb_lt in El.
    destruct (info_get (m_info s) (m_rcvd s)) as [[w r]|].
    + destruct ((match r with Some _ => true | None => false end) || nth w (m_status s) false); [discriminate|].
      apply IH in H; cbn in *; lia.
    + apply IH in H; cbn in *; lia.
  - injection H as <-. apply Nat.ltb_ge in El. exact El.
Qed.

Lemma process_data_not_stop c s r w st : fst (process_data c s r w st) <> OStop.
Proof.
  unfold process_data. destruct r; cbn; try discriminate.
  match goal with |- context [m_assert ?x] => destruct (m_assert x) end; cbn; discriminate.
Qed.

(* C09, "never ends the epoch early as if complete": whatever the fault schedule (deaths and timeouts at any point),
   StopIteration is only raised when every task sent has been yielded, stop-processed or belongs to a worker that
   RETIRED (announced its own exhaustion) — a worker that merely died keeps workers_status true, so its unanswered
   task blocks the end of the epoch *)
Theorem stop_only_when_all_accounted fuel c : forall s crashed sched s' cr' sched',
  next_data_f fuel c s crashed sched = (FO OStop, s', cr', sched') -> m_send s' <= m_rcvd s'.
Proof.
  induction fuel as [|f IH]; intros s crashed sched s' cr' sched' H; cbn [next_data_f] in H; [discriminate|].
  destruct (skip_retired (S (m_send s)) s) as [found s0] eqn:E.
  destruct found; cbn [negb] in H; cbv iota in H.
  - repeat match type of H with
           | context [match ?x with _ => _ end] => destruct x eqn:?
           | context [if ?x then _ else _] => destruct x eqn:?
           end; try discriminate; try (eapply IH; eassumption).
    all: try (match goal with
              | Hp : process_data ?c ?s ?r ?w ?st = (?o, _) |- _ =>
                  pose proof (process_data_not_stop c s r w st) as Hn; rewrite Hp in Hn; cbn in Hn;
                  inversion H; subst; congruence
              end).
  - inversion H; subst. cbn. apply skip_retired_exhausted in E; [exact E | lia].
Qed.

(* C09, "reported promptly": when main waits for a result (the task at rcvd_idx is unanswered) and some worker that is
   still expected to work has died, the very next expiry of the poll raises — it is never papered over by waiting on *)
Theorem timeout_reports_dead_worker f c s crashed rest s0 :
  skip_retired (S (m_send s)) s = (true, s0) ->
  (forall w x, info_get (m_info s0) (m_rcvd s0) <> Some (w, Some x)) ->
  m_outst s0 <> 0 ->
  crashed_expected s0 crashed <> [] ->
  exists s' , next_data_f (S f) c s crashed (FTimeout :: rest) = (FWorkerDied (crashed_expected s0 crashed), s', crashed, rest).
Proof.
  intros E Hno Ho Hc. cbn [next_data_f]. rewrite E. cbn [negb]. cbv iota.
  destruct (info_get (m_info s0) (m_rcvd s0)) as [[w [x|]]|] eqn:Ei; [exfalso; eapply Hno; reflexivity| |];
    (destruct (m_outst s0 =? 0) eqn:Eo; [apply Nat.eqb_eq in Eo; contradiction|]);
    destruct (crashed_expected s0 crashed) eqn:Ec; try contradiction; eexists; reflexivity.
Qed.
