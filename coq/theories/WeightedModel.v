(* WeightedModel.v — executable model of torchdata/nodes/samplers/multi_node_weighted_sampler.py (C14).
   Sources are resettable list iterators (IterableWrapper over a list); the sequence of source
   choices (torch.multinomial batches seeded from (seed, rank, world_size, epoch)) is an input:
   [choice e i] = index of the source chosen by the i-th draw of epoch e.  No proofs here. *)
From PD Require Import Base.

Inductive crit := CycleUntilAll | AllExhausted | FirstExhausted | CycleForever.

Record wcfg := {
  w_sources : list (list nat);        (* items of each source, in dataset_names order *)
  w_crit : crit;
  w_batch : nat }.                    (* random_tensor_batch_size (1000 in the code) *)

Record wst := {
  w_pos : list nat;                   (* position of each source node (= its _num_yielded) *)
  w_exh : list bool;                  (* _datasets_exhausted *)
  w_off : nat;                        (* global index of the next choice: batch * w_batch + offset *)
  w_yielded : nat;
  w_epoch : nat;
  w_started : bool }.

Inductive wout := WItem (src : nat) (x : nat) | WStop | WFuel.

Fixpoint set_nth {A} (l : list A) (i : nat) (x : A) : list A :=
  match l, i with
  | [], _ => []
  | _ :: r, 0 => x :: r
  | y :: r, S i' => y :: set_nth r i' x
  end.

Definition all_true (l : list bool) : bool := forallb (fun b => b) l.
Definition any_true (l : list bool) : bool := existsb (fun b => b) l.

(* _check_for_stop_iteration : true = raise StopIteration *)
Definition check_stop (c : wcfg) (exh : list bool) : bool :=
  match w_crit c with
  | CycleForever => false
  | FirstExhausted => all_true exh || any_true exh
  | _ => all_true exh
  end.

Section Run.
  Variable choice : nat -> nat -> nat.     (* epoch -> draw index -> source index *)
  Variable c : wcfg.

  Definition src_items (k : nat) : list nat := nth k (w_sources c) [].

  (* reset(None) *)
  Definition w_reset_fresh (s : option wst) : wst :=
    let e := match s with Some s => if w_started s then S (w_epoch s) else w_epoch s | None => 0 end in
    {| w_pos := map (fun _ => 0) (w_sources c); w_exh := map (fun _ => false) (w_sources c);
       w_off := 0; w_yielded := 0; w_epoch := e; w_started := false |}.

  (* the while-loop of next(); fuel bounds the number of draws in one call *)
  Fixpoint w_next_loop (fuel : nat) (s : wst) : wout * wst :=
    match fuel with
    | 0 => (WFuel, s)
    | S fuel' =>
        if check_stop c (w_exh s) then (WStop, s) else
        let key := choice (w_epoch s) (w_off s) in
        let s1 := {| w_pos := w_pos s; w_exh := w_exh s; w_off := S (w_off s); w_yielded := w_yielded s;
                     w_epoch := w_epoch s; w_started := true |} in
        if nth key (w_exh s) false && match w_crit c with AllExhausted => true | _ => false end
        then w_next_loop fuel' s1
        else
          match nth_error (src_items key) (nth key (w_pos s) 0) with
          | Some x =>
              (WItem key x, {| w_pos := set_nth (w_pos s1) key (S (nth key (w_pos s) 0)); w_exh := w_exh s1;
                               w_off := w_off s1; w_yielded := S (w_yielded s1); w_epoch := w_epoch s1;
                               w_started := true |})
          | None =>                                   (* StopIteration from the source *)
              let exh' := set_nth (w_exh s) key true in
              let s2 := {| w_pos := w_pos s1; w_exh := exh'; w_off := w_off s1; w_yielded := w_yielded s1;
                           w_epoch := w_epoch s1; w_started := true |} in
              if check_stop c exh' then (WStop, s2) else
              match w_crit c with
              | AllExhausted => w_next_loop fuel' s2
              | _ =>                                  (* reset the source and pull again *)
                  match nth_error (src_items key) 0 with
                  | Some x => (WItem key x, {| w_pos := set_nth (w_pos s2) key 1; w_exh := exh'; w_off := w_off s2;
                                               w_yielded := S (w_yielded s2); w_epoch := w_epoch s2; w_started := true |})
                  | None => (WStop, {| w_pos := set_nth (w_pos s2) key 0; w_exh := exh'; w_off := w_off s2;
                                       w_yielded := w_yielded s2; w_epoch := w_epoch s2; w_started := true |})
                      (* an empty source: next() after reset() raises StopIteration out of next()  (D12) *)
                  end
              end
          end
    end.

  Definition w_next (fuel : nat) (s : wst) : wout * wst :=
    w_next_loop fuel {| w_pos := w_pos s; w_exh := w_exh s; w_off := w_off s; w_yielded := w_yielded s;
                        w_epoch := w_epoch s; w_started := true |}.

  (* get_state / reset(state): the state dict holds exactly these fields (started is not saved) *)
  Record wsd := { sd_pos : list nat; sd_exh : list bool; sd_batch : nat; sd_offset : nat; sd_yielded : nat; sd_epoch : nat }.

  Definition w_get_state (s : wst) : wsd :=
    (* _WeightedSampler.state_dict: generator snapshot of the CURRENT batch + offset inside it.
       A new batch is only drawn when a choice is requested with offset >= batch size. *)
    let b := w_batch c in
    let '(bn, off) := if (0 <? w_off s) && (w_off s mod b =? 0) then (w_off s / b - 1, b) else (w_off s / b, w_off s mod b) in
    {| sd_pos := w_pos s; sd_exh := w_exh s; sd_batch := bn; sd_offset := off; sd_yielded := w_yielded s; sd_epoch := w_epoch s |}.

  Definition w_reset_state (d : wsd) : wst :=
    {| w_pos := sd_pos d; w_exh := sd_exh d; w_off := sd_batch d * w_batch c + sd_offset d;
       w_yielded := sd_yielded d; w_epoch := sd_epoch d; w_started := false |}.

  Fixpoint w_run (fuel n : nat) (s : wst) : list wout * wst :=
    match n with
    | 0 => ([], s)
    | S n' => let '(o, s') := w_next fuel s in
              let '(l, s'') := w_run fuel n' s' in (o :: l, s'')
    end.
End Run.
