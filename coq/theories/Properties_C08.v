(* Properties_C08.v — C08: a state_dict is a reusable value and taking it changes nothing.
   The Gallina model is purely functional, so state dicts are immutable values by construction;
   what the model can (and does) carry is the observational half of C08:
     * state_dict() at any point of any history does not change what is subsequently yielded;
     * one state value can be loaded any number of times, into any object, with the same result.
   The aliasing half (the library never writes through a dict it handed out or was handed) is
   decided on the implementation by the pickled deep-compare oracle of the C08 check.
   Proofs in NodeResumeProofs.v. *)
From PD Require Import Base NodeModel NodeResumeProofs.
Open Scope string_scope. Open Scope list_scope. Open Scope nat_scope.

(* [Reach] is closed under taking the state (position unchanged) and under loading the state of a
   reachable object into ANY object t0, any number of times; in all those states the continuation
   is exactly the remaining reference stream *)
Theorem C08_state_dict_is_pure : forall p e k t, pipe_ok p = true -> Reach p e k t ->
  fst (node_run p (FUEL p) (snd (node_state p t))) = fst (node_run p (FUEL p) t).
Proof.
  intros p e k t Hok HR.
  destruct (reach_exact p e k _ Hok (reach_state p e k t HR)) as (_ & _ & H1).
  destruct (reach_exact p e k t Hok HR) as (_ & _ & H2). congruence.
Qed.
Print Assumptions C08_state_dict_is_pure.

Theorem C08_same_state_same_continuation : forall p e k t t0 t0', pipe_ok p = true -> Reach p e k t ->
  fst (node_run p (FUEL p) (node_reset p t0 (Some (fst (node_state p t)))))
  = fst (node_run p (FUEL p) (node_reset p t0' (Some (fst (node_state p t))))).
Proof.
  intros p e k t t0 t0' Hok HR.
  destruct (reach_exact p e k _ Hok (reach_resume p e k t t0 HR)) as (_ & _ & H1).
  destruct (reach_exact p e k _ Hok (reach_resume p e k t t0' HR)) as (_ & _ & H2). congruence.
Qed.
Print Assumptions C08_same_state_same_continuation.

(* taking the state twice in a row returns the same value *)
Theorem C08_state_twice_same_position : forall p e k t, pipe_ok p = true -> Reach p e k t ->
  Reach p e k (snd (node_state p (snd (node_state p t)))).
Proof. intros p e k t _ HR. apply reach_state, reach_state, HR. Qed.
Print Assumptions C08_state_twice_same_position.
