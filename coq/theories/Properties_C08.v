(* Properties_C08.v — placeholder until the purity theorems land; see DESIGN.md 4 C08. *)
From PD Require Import Base NodeModel NodeObs.
Theorem C08_placeholder : True. Proof. exact I. Qed.
Print Assumptions C08_placeholder.
