(* ConcOwner.v — C12, second half: the source is only ever driven by one thread.
   In ConcModel, `s_overlap` is raised whenever a thread enters the source (next / reset / state_dict) while another
   one is inside next().  Theorem: along ANY schedule in which _shutdown's join() on the old READ thread never times
   out while that thread is alive, s_overlap stays false — through every reset(), reset(loaded state), error and
   shutdown, for Prefetcher and ParallelMapper alike.  (With such a timeout the claim is false: Properties_C12.v has the
   witness, known finding D10.) *)
From Coq Require Import List Arith Bool Lia.
From RecordUpdate Require Import RecordUpdate.
From PD Require Import ConcModel ConcInv ConcLive.
Import ListNotations.
Open Scope nat_scope.

(* the one kind of step the hypothesis excludes *)
Definition reader_join_timeout (s : state) (ch : tid * mode) : bool :=
  match ch with
  | (TC, Timeout) =>
      s_started s && negb (s_cdone s) &&
      match cur s with
      | Some g => match g_c g with CShJoin 0 => r_alive g | _ => false end
      | None => false
      end
  | _ => false
  end.

Fixpoint jt_free (c : cfg) (s : state) (sched : list (tid * mode)) : bool :=
  match sched with
  | [] => true
  | ch :: r => negb (reader_join_timeout s ch) && jt_free c (step c s ch) r
  end.

(* ---------------------------------------------------------------------------------------------------------- *)
Definition rdone (g : gen) : Prop := g_r g = RDone.
Definition in_shutdown (p : cpc) : bool := match p with CShSet | CShSet2 | CShJoin _ => true | _ => false end.
Definition is_construct (a : cact) : bool := match a with AConstruct _ => true | _ => false end.
Definition clean (t : list cact) : Prop := Forall (fun a => is_construct a = false) t.

Definition TodoOK (s : state) : Prop :=
  clean (s_todo s) \/
  (exists l rest, (s_todo s = AConstruct l :: rest \/ s_todo s = AShutdown :: AConstruct l :: rest) /\ clean rest /\
                  exists g, cur s = Some g /\ in_shutdown (g_c g) = true).

Record Own (s : state) : Prop := {
  o_old : Forall rdone (removelast (s_gens s));                       (* readers of earlier generations have exited *)
  o_join : forall g k, cur s = Some g -> g_c g = CShJoin (S k) -> rdone g;  (* past the reader's join: it had exited *)
  o_todo : TodoOK s;
  o_ok : s_overlap s = false }.

(* ---------------------------------------------------------------------------------------------------------- *)
(* small facts *)
Lemma removelast_app_single {A} (l : list A) x : removelast (l ++ [x]) = l.
Proof. apply removelast_last. Qed.

Lemma rstep_done c m g pos : rdone g -> rstep c m g pos = (g, pos).
Proof. unfold rdone, rstep. intros ->. reflexivity. Qed.

Lemma wstep_r c i m g : g_r (wstep c i m g) = g_r g.
Proof. unfold wstep. repeat match goal with |- context [match ?x with _ => _ end] => destruct x end; reflexivity. Qed.
Lemma sstep_r c m g : g_r (sstep c m g) = g_r g.
Proof. unfold sstep, s_after. repeat match goal with |- context [match ?x with _ => _ end] => destruct x end; reflexivity. Qed.
Lemma after_join_r c g k : g_r (fst (after_join c g k)) = g_r g.
Proof. unfold after_join. destruct (next_join c g k (2 + k_nw c - k)); reflexivity. Qed.
Lemma set_outq_r c q g : g_r (set_outq c q g) = g_r g.
Proof. unfold set_outq. destruct (k_pm c), (k_inorder c); reflexivity. Qed.
Lemma cstep_r c m g : g_r (fst (cstep c m g)) = g_r g.
Proof.
  unfold cstep. destruct (g_c g); cbn;
    repeat match goal with |- context [match ?x with _ => _ end] => destruct x end; cbn;
    rewrite ?after_join_r, ?set_outq_r; cbn; rewrite ?set_outq_r; reflexivity.
Qed.

Lemma inside_all_done gs : Forall rdone gs -> inside gs = 0.
Proof. unfold inside. induction 1 as [|g gs Hg _ IH]; cbn; [reflexivity|]. unfold rdone in Hg. rewrite Hg. exact IH. Qed.

Lemma inside_app gs g : inside (gs ++ [g]) = inside gs + (match g_r g with RPull => 1 | _ => 0 end).
Proof. unfold inside. rewrite filter_app, app_length. cbn. destruct (g_r g); cbn; lia. Qed.

Lemma last_some_split {A} (l : list A) x : last (map Some l) None = Some x -> l = removelast l ++ [x].
Proof.
  induction l as [|a l IH]; cbn; [discriminate|]. destruct l as [|b l].
  - cbn. intros H. injection H as ->. reflexivity.
  - intros H. specialize (IH H). change (removelast (a :: b :: l)) with (a :: removelast (b :: l)).
    cbn [app]. f_equal. exact IH.
Qed.

Lemma gens_split s g : cur s = Some g -> s_gens s = removelast (s_gens s) ++ [g].
Proof. unfold cur. apply last_some_split. Qed.

Lemma cur_none_gens s : cur s = None -> s_gens s = [].
Proof.
  unfold cur. induction (s_gens s) as [|a l IH]; [reflexivity|]. cbn. destruct l as [|b l]; [discriminate|].
  intros H. specialize (IH H). discriminate.
Qed.

(* ---------------------------------------------------------------------------------------------------------- *)
(* the consumer's shutdown phase *)
Lemma next_join_ge c g : forall fuel k k', next_join c g k fuel = Some k' -> k <= k' /\ stage_alive c g k' = true /\
  (forall j, k <= j < k' -> stage_alive c g j = false).
Proof.
  induction fuel as [|f IH]; intros k k' H; cbn in H; [discriminate|].
  destruct (stage_alive c g k) eqn:E.
  - injection H as <-. repeat split; auto. intros j Hj. lia.
  - apply IH in H. destruct H as (H1 & H2 & H3). repeat split; auto; [lia|]. intros j Hj.
    destruct (Nat.eq_dec j k) as [->|Hne]; [exact E | apply H3; lia].
Qed.

Lemma next_join_none c g : forall fuel k, next_join c g k fuel = None -> forall j, k <= j < k + fuel -> stage_alive c g j = false.
Proof.
  induction fuel as [|f IH]; intros k H j Hj; [lia|]. cbn in H. destruct (stage_alive c g k) eqn:Es; [discriminate|].
  destruct (Nat.eq_dec j k) as [->|Hne]; [exact Es | apply (IH (S k) H); lia].
Qed.

(* the two things after_join can do: park at the first later stage whose thread is alive, or complete the shutdown *)
Lemma after_join_cases c g k : k <= 1 ->
  (exists k', k <= k' /\ after_join c g k = (g <| g_c := CShJoin k' |>, None) /\
              (forall j, k <= j < k' -> stage_alive c g j = false)) \/
  (after_join c g k = (g <| g_c := CIdle |>, Some OutShut) /\ (k = 0 -> stage_alive c g 0 = false)).
Proof.
  intros Hk. unfold after_join. destruct (next_join c g k (2 + k_nw c - k)) as [k'|] eqn:E.
  - left. apply next_join_ge in E. destruct E as (E1 & E2 & E3). exists k'. repeat split; auto.
  - right. split; [reflexivity|]. intros ->. apply (next_join_none c g _ _ E 0). lia.
Qed.

Lemma stage0_dead c g : stage_alive c g 0 = false -> rdone g.
Proof. cbn. unfold r_alive, rdone. destruct (g_r g); try discriminate. reflexivity. Qed.

(* inside _shutdown, a consumer step either stays inside _shutdown or completes it; when it moves past the reader's join,
   or completes, the reader has exited — unless the step is a reader-join timeout *)
Lemma cstep_shutdown c m g :
  in_shutdown (g_c g) = true ->
  (forall k, g_c g = CShJoin (S k) -> rdone g) ->
  ~ (m = Timeout /\ g_c g = CShJoin 0 /\ r_alive g = true) ->
  let g' := fst (cstep c m g) in
  (snd (cstep c m g) = None /\ in_shutdown (g_c g') = true /\ (forall k, g_c g' = CShJoin (S k) -> rdone g')) \/
  (snd (cstep c m g) = Some OutShut /\ rdone g').
Proof.
  intros Hin Hj Hnt.
  (* generic: run after_join from stage k on a generation g1 that has g's reader *)
  assert (forall g1 k, g_r g1 = g_r g -> k <= 1 -> (k = 1 -> rdone g) ->
            let r := after_join c g1 k in
            (snd r = None /\ in_shutdown (g_c (fst r)) = true /\ (forall k', g_c (fst r) = CShJoin (S k') -> rdone (fst r))) \/
            (snd r = Some OutShut /\ rdone (fst r))) as Hgen.
  { intros g1 k Hr Hk Hd r. subst r.
    assert (k = 0 \/ k = 1) as [->| ->] by lia.
    - destruct (after_join_cases c g1 0 ltac:(lia)) as [(k' & K1 & -> & K3)|[-> K2]]; cbn.
      + left. split; [reflexivity|]. split; [reflexivity|]. intros k'' Ek. injection Ek as ->.
        assert (stage_alive c g1 0 = false) as H0 by (apply K3; lia). apply (stage0_dead c) in H0. unfold rdone in *. cbn. exact H0.
      + right. split; [reflexivity|]. specialize (K2 eq_refl). apply (stage0_dead c) in K2. unfold rdone in *. cbn. exact K2.
    - specialize (Hd eq_refl). destruct (after_join_cases c g1 1 ltac:(lia)) as [(k' & K1 & -> & K3)|[-> K2]]; cbn.
      + left. split; [reflexivity|]. split; [reflexivity|]. intros k'' _. unfold rdone in *. cbn. rewrite Hr. exact Hd.
      + right. split; [reflexivity|]. unfold rdone in *. cbn. rewrite Hr. exact Hd. }
  unfold cstep. destruct (g_c g) eqn:Ec; try discriminate.
  - (* CShSet *)
    destruct (k_pm c).
    + left. cbn. repeat split; auto. intros k Hk. discriminate.
    + apply (Hgen (g <| g_stop := true |>) 0); [reflexivity | lia | intros; lia].
  - (* CShSet2 *)
    apply (Hgen (g <| g_mpstop := true |>) 0); [reflexivity | lia | intros; lia].
  - (* CShJoin k *)
    assert (forall k0, k = S k0 -> rdone g) as Hk by (intros k0 ->; apply (Hj k0 eq_refl)).
    destruct m.
    + destruct (stage_alive c g k) eqn:Ea.
      * left. cbn. rewrite Ec. split; [reflexivity|]. split; [reflexivity|]. intros k' Hk'. injection Hk' as ->. apply (Hk k' eq_refl).
      * (* the joined thread has exited: go on with the next stage *)
        destruct k as [|k].
        -- apply (Hgen g 1); [reflexivity | lia | intros _; apply (stage0_dead c), Ea].
        -- assert (rdone g) as Hd by (apply (Hk k eq_refl)).
           unfold after_join. destruct (next_join c g (S (S k)) (2 + k_nw c - S (S k))); cbn.
           ++ left. split; [reflexivity|]. split; [reflexivity|]. intros k' _. exact Hd.
           ++ right. split; [reflexivity | exact Hd].
    + destruct (stage_alive c g k) eqn:Ea.
      * destruct k as [|k]; [exfalso; apply Hnt; repeat split; auto|].
        assert (rdone g) as Hd by (apply (Hk k eq_refl)).
        unfold after_join. destruct (next_join c g (S (S k)) (2 + k_nw c - S (S k))); cbn.
        -- left. split; [reflexivity|]. split; [reflexivity|]. intros k' _. exact Hd.
        -- right. split; [reflexivity | exact Hd].
      * left. cbn. rewrite Ec. split; [reflexivity|]. split; [reflexivity|]. intros k' Hk'. injection Hk' as ->. apply (Hk k' eq_refl).
Qed.

(* outside _shutdown a consumer step never enters a join and never completes a shutdown *)
Lemma cstep_not_shutdown c m g :
  in_shutdown (g_c g) = false ->
  (forall k, g_c (fst (cstep c m g)) <> CShJoin k) /\ snd (cstep c m g) <> Some OutShut /\
  (snd (cstep c m g) = None -> in_shutdown (g_c (fst (cstep c m g))) = false).
Proof.
  intros Hin. unfold cstep. destruct (g_c g) eqn:Ec; try discriminate; cbn;
    repeat match goal with |- context [match ?x with _ => _ end] => destruct x eqn:? end; cbn;
    repeat split; try discriminate; try congruence; auto.
Qed.

(* ---------------------------------------------------------------------------------------------------------- *)
(* dispatch / complete / step preserve Own *)
Record OwnCore (s : state) : Prop := {
  c_old : Forall rdone (removelast (s_gens s));
  c_join : forall g k, cur s = Some g -> g_c g = CShJoin (S k) -> rdone g;
  c_ok : s_overlap s = false }.

Lemma own_core s : Own s -> OwnCore s.
Proof. intros [A B C D]. constructor; auto. Qed.

Lemma clean_expand p : clean (expand p).
Proof.
  unfold clean, expand. induction p as [|o p IH]; cbn; [constructor|]. apply Forall_app. split; [|exact IH].
  destruct o; cbn; repeat constructor.
Qed.

Lemma core_log o s : OwnCore s -> OwnCore (log o s).
Proof. intros [A B D]. constructor; unfold log, cur in *; cbn; auto. Qed.

Lemma core_states x s : OwnCore s -> OwnCore (s <| s_states ::= x |>).
Proof. intros [A B D]. constructor; unfold cur in *; cbn; auto. Qed.

Lemma core_set_cur s g2 : OwnCore s -> (forall k, g_c g2 <> CShJoin k) -> OwnCore (set_cur g2 s).
Proof.
  intros [A B D] Hp. constructor.
  - cbn. rewrite removelast_app_single. exact A.
  - intros g0 k E. rewrite cur_set_cur in E. injection E as <-. intros Hk. exfalso. apply (Hp (S k)), Hk.
  - exact D.
Qed.

(* the consumer starts a new operation (next / shutdown) on the current generation: pc p, todo t *)
Lemma own_start_op s g p t : OwnCore s -> cur s = Some g ->
  (forall k, p <> CShJoin k) ->
  (clean t \/ (in_shutdown p = true /\ exists l rest, (t = AConstruct l :: rest \/ t = AShutdown :: AConstruct l :: rest) /\ clean rest)) ->
  Own (set_cur (g <| g_c := p |>) s <| s_todo := t |>).
Proof.
  intros [A B D] Hc Hp Ht. constructor.
  - cbn. rewrite removelast_app_single. exact A.
  - intros g0 k E. unfold cur in E. cbn in E. rewrite map_app in E. cbn in E. rewrite last_app_single in E. injection E as <-.
    cbn. intros Hk. exfalso. apply (Hp (S k)). exact Hk.
  - unfold TodoOK. cbn. destruct Ht as [Ht|(Hs & l & rest & Hl & Hr)]; [left; exact Ht|]. right. exists l, rest. split; [exact Hl|]. split; [exact Hr|].
    exists (g <| g_c := p |>). split; [|exact Hs]. unfold cur. cbn. rewrite map_app. cbn. apply last_app_single.
  - exact D.
Qed.

(* a new iterator is built while every reader has exited *)
Lemma own_construct c l s t : Forall rdone (s_gens s) -> s_overlap s = false -> clean t ->
  Own (construct c l s <| s_todo := t |>).
Proof.
  intros Hd Ho Ht. unfold construct.
  destruct (match l with Some j => nth j (s_states s) (0, 0) | None => (0, 0) end) as [base ff]. constructor; cbn.
  - rewrite removelast_app_single. exact Hd.
  - intros g k E. unfold cur in E. cbn in E. rewrite map_app in E. cbn in E. rewrite last_app_single in E. injection E as <-.
    unfold new_gen. cbn. destruct (k_pm c); discriminate.
  - left. exact Ht.
  - rewrite Ho, (inside_all_done _ Hd). reflexivity.
Qed.

Lemma clean_tail a t : clean (a :: t) -> clean t.
Proof. intros H. inversion H. assumption. Qed.

Lemma own_done s : OwnCore s -> Own (s <| s_todo := [] |> <| s_cdone := true |>).
Proof. intros [A B D]. constructor; unfold cur, TodoOK in *; cbn; auto. left. constructor. Qed.

Lemma own_dispatch c : forall todo s, clean todo -> OwnCore s -> Own (dispatch c todo s).
Proof.
  induction todo as [|a t IH]; intros s Hc Ho; cbn.
  - apply own_done, Ho.
  - pose proof (clean_tail _ _ Hc) as Hct.
    assert (is_construct a = false) as Ha by (inversion Hc; assumption).
    destruct a; try discriminate; destruct (cur s) as [g|] eqn:Ec.
    + (* ANext *) apply own_start_op; auto. intros k; discriminate.
    + apply own_done, Ho.
    + (* AState *) apply IH; [exact Hct|]. apply core_log, core_states, Ho.
    + apply own_done, Ho.
    + (* AReset, an iterator exists: shut it down first *)
      apply own_start_op; auto; [intros k; discriminate|]. right. split; [reflexivity|].
      destruct (g_cyc g); [exists load, t; split; [left; reflexivity | exact Hct] | exists load, t; split; [right; reflexivity | exact Hct]].
    + (* AReset, first iterator *)
      apply own_construct; [rewrite (cur_none_gens _ Ec); constructor | exact (c_ok _ Ho) | exact Hct].
    + (* AShutdown *) apply own_start_op; auto. intros k; discriminate.
    + apply own_done, Ho.
    + (* ALogShut *) apply IH; [exact Hct | apply core_log, Ho].
    + apply IH; [exact Hct | apply core_log, Ho].
Qed.

Lemma own_of_core s : OwnCore s -> clean (s_todo s) -> Own s.
Proof. intros [A B D] H. constructor; auto. left. exact H. Qed.

(* an operation of the consumer completes *)
Lemma own_complete c m s g o :
  Own s -> cur s = Some g -> reader_join_timeout s (TC, m) = false -> s_started s = true -> s_cdone s = false ->
  snd (cstep c m g) = Some o ->
  Own (complete c o (set_cur (fst (cstep c m g)) s)).
Proof.
  intros Ho Ec Hjt Hst Hcd Eo. set (g' := fst (cstep c m g)). set (s' := set_cur g' s).
  assert (g_c g' = CIdle) as Hidle by (apply cstep_some_idle with (o := o); exact Eo).
  assert (cur s' = Some g') as Ec' by apply cur_set_cur.
  assert (OwnCore s') as Hcore by (apply core_set_cur; [apply own_core, Ho | intros k; rewrite Hidle; discriminate]).
  assert (forall g2, (forall k, g_c g2 <> CShJoin k) -> OwnCore (set_cur g2 s')) as Hcore2 by (intros; apply core_set_cur; assumption).
  destruct (in_shutdown (g_c g)) eqn:Esh.
  - (* a _shutdown completes: the reader has exited *)
    assert (~ (m = Timeout /\ g_c g = CShJoin 0 /\ r_alive g = true)) as Hnt.
    { intros (-> & Hc0 & Ha). cbn in Hjt. rewrite Hst, Hcd, Ec, Hc0, Ha in Hjt. discriminate. }
    destruct (cstep_shutdown c m g Esh (fun k Hk => o_join _ Ho g k Ec Hk) Hnt) as [(Hn & _)|(Hs & Hd)]; [congruence|].
    rewrite Eo in Hs. injection Hs as ->. fold g' in Hd.
    assert (Forall rdone (s_gens s')) as Hall.
    { unfold s', set_cur. cbn. apply Forall_app. split; [exact (o_old _ Ho) | constructor; [exact Hd | constructor]]. }
    unfold complete. rewrite Ec'. change (s_todo s') with (s_todo s).
    destruct (o_todo _ Ho) as [Hcl|(l & rest & [Hl|Hl] & Hcr & _)].
    + apply own_dispatch; assumption.
    + rewrite Hl. cbn [dispatch]. apply own_construct; [exact Hall | exact (c_ok _ Hcore) | exact Hcr].
    + rewrite Hl. cbn [dispatch]. rewrite Ec'. apply own_start_op; auto; [intros k; discriminate|].
      right. split; [reflexivity|]. exists l, rest. split; [left; reflexivity | exact Hcr].
  - (* any other operation: nothing is being torn down, the todo list holds no pending construct *)
    assert (clean (s_todo s)) as Hcl.
    { destruct (o_todo _ Ho) as [Hcl|(l & rest & _ & _ & g1 & E1 & Hs)]; [exact Hcl|]. rewrite Ec in E1. injection E1 as <-. congruence. }
    destruct (cstep_not_shutdown c m g Esh) as (_ & Hno & _).
    unfold complete. rewrite Ec'. change (s_todo s') with (s_todo s).
    destruct o; try congruence.
    all: repeat match goal with |- context [match ?x with _ => _ end] => destruct x end.
    all: try (apply own_dispatch; [exact Hcl|]; try apply core_log; try exact Hcore; try (apply Hcore2; intros k; cbn; rewrite ?Hidle; discriminate); fail).
    all: try (apply own_done, core_log, Hcore; fail).
    all: try (apply own_of_core; [apply Hcore2; intros k; cbn; discriminate | exact Hcl]; fail).
Qed.

(* ---------------------------------------------------------------------------------------------------------- *)
(* steps of background threads *)
Lemma Forall_removelast_upd {A} (P : A -> Prop) f i (l : list A) :
  Forall P (removelast l) -> (forall x, P x -> P (f x)) -> Forall P (removelast (upd_nth i f l)).
Proof.
  intros H Hf. revert i. induction l as [|a l IH]; intros i; [destruct i; constructor|].
  destruct l as [|b l].
  - destruct i; cbn; [constructor | rewrite upd_nth_nil; constructor].
  - change (removelast (a :: b :: l)) with (a :: removelast (b :: l)) in H. inversion H as [|? ? Ha Hl]; subst.
    destruct i.
    + cbn. constructor; [apply Hf, Ha | exact Hl].
    + cbn [upd_nth]. specialize (IH Hl i). destruct (upd_nth i f (b :: l)) as [|b' l'] eqn:E; [destruct i; discriminate|].
      change (removelast (a :: b' :: l')) with (a :: removelast (b' :: l')). constructor; [exact Ha | exact IH].
Qed.

Lemma cur_upd (P : gen -> Prop) f i s : (forall x, P x -> P (f x)) ->
  forall g', cur (s <| s_gens := upd_nth i f (s_gens s) |>) = Some g' ->
  (forall g, cur s = Some g -> P g) -> P g'.
Proof.
  intros Hf g' E HP. destruct (cur s) as [g|] eqn:Ec.
  - destruct (last_upd_nth P f i (s_gens s) Hf (ex_intro _ g (conj Ec (HP g eq_refl)))) as (x & Ex & Px).
    unfold cur in E. cbn in E. rewrite Ex in E. injection E as <-. exact Px.
  - rewrite (cur_none_gens _ Ec) in E. unfold cur in E. cbn in E. rewrite upd_nth_nil in E. discriminate.
Qed.

(* a step that changes neither the reader's nor the consumer's program counter of any generation *)
Lemma own_upd_frame f i s : Own s -> (forall g, g_r (f g) = g_r g /\ g_c (f g) = g_c g) ->
  Own (s <| s_gens ::= upd_nth i f |>).
Proof.
  intros [A B C D] Hf. constructor.
  - cbn. apply Forall_removelast_upd; [exact A|]. intros x Hx. unfold rdone. rewrite (proj1 (Hf x)). exact Hx.
  - intros g' k E. revert k.
    apply (cur_upd (fun g => forall k, g_c g = CShJoin (S k) -> rdone g) f i s); [|exact E|].
    + intros x Hx k Hk. unfold rdone. rewrite (proj1 (Hf x)). apply (Hx k). rewrite <- (proj2 (Hf x)). exact Hk.
    + intros g Eg k Hk. apply (B g k Eg Hk).
  - unfold TodoOK in *. cbn. destruct C as [C|(l & rest & Hl & Hcl & g1 & E1 & Hs)]; [left; exact C|]. right. exists l, rest. split; [exact Hl|]. split; [exact Hcl|].
    destruct (last_upd_nth (fun g => in_shutdown (g_c g) = true) f i (s_gens s)) as (x & Ex & Px).
    + intros x Hx. rewrite (proj2 (Hf x)). exact Hx.
    + exists g1. split; [exact E1 | exact Hs].
    + exists x. split; [exact Ex | exact Px].
  - exact D.
Qed.

Lemma upd_nth_same {A} (l : list A) i g : nth_error l i = Some g -> upd_nth i (fun _ => g) l = l.
Proof. revert i. induction l as [|a l IH]; intros [|i] H; cbn in *; try discriminate; [congruence | f_equal; apply IH, H]. Qed.

Lemma nth_last_split {A} (P : A -> Prop) (l : list A) i g :
  nth_error l i = Some g -> ~ P g -> Forall P (removelast l) -> l = removelast l ++ [g] /\ i = length (removelast l).
Proof.
  revert i. induction l as [|a l IH]; intros i H Hn HF; [destruct i; discriminate|].
  destruct l as [|b l].
  - destruct i as [|i]; cbn in H; [injection H as ->; split; reflexivity | destruct i; discriminate].
  - change (removelast (a :: b :: l)) with (a :: removelast (b :: l)) in *. inversion HF as [|? ? Ha Hl]; subst.
    destruct i as [|i]; cbn in H.
    + injection H as ->. contradiction.
    + destruct (IH i H Hn Hl) as [E1 E2]. split; [cbn [app]; f_equal; exact E1 | cbn [length]; f_equal; exact E2].
Qed.

Lemma upd_nth_app_last {A} (pre : list A) g f : upd_nth (length pre) f (pre ++ [g]) = pre ++ [f g].
Proof. induction pre as [|a pre IH]; cbn; [reflexivity | f_equal; exact IH]. Qed.

Lemma own_reader_step c s gi m : Own s -> Own (step c s (TG gi GR, m)).
Proof.
  intros Ho. unfold step. destruct (nth_error (s_gens s) gi) as [g|] eqn:En; [|exact Ho].
  destruct (g_r g) eqn:Er.
  all: try (
    (* the stepping reader is alive, hence it is the newest generation's *)
    assert (~ rdone g) as Hnd by (unfold rdone; rewrite Er; discriminate);
    destruct (nth_last_split rdone _ _ _ En Hnd (o_old _ Ho)) as [Esplit Egi];
    assert (cur s = Some g) as Ec by (unfold cur; rewrite Esplit, map_app; cbn; apply last_app_single);
    destruct (rstep c m g (s_pos s)) as [g' pos'] eqn:Estep;
    assert (g_c g' = g_c g) as Hc' by (replace g' with (fst (rstep c m g (s_pos s))) by (rewrite Estep; reflexivity); apply rstep_c);
    assert (inside (upd_nth gi (fun g0 : gen => g0 <| g_r := RDone |>) (s_gens s)) = 0) as ->
      by (rewrite Egi; generalize Esplit (o_old _ Ho); generalize (removelast (s_gens s)); intros pre0 E0 F0; rewrite E0, upd_nth_app_last, inside_app; cbn;
          rewrite (inside_all_done _ F0); reflexivity);
    rewrite andb_false_r, orb_false_r;
    assert (upd_nth gi (fun _ : gen => g') (s_gens s) = removelast (s_gens s) ++ [g']) as ->
      by (rewrite Egi; generalize Esplit; generalize (removelast (s_gens s)); intros pre0 E0; rewrite E0; apply upd_nth_app_last);
    destruct Ho as [A B C D]; constructor;
    [ cbn; rewrite removelast_app_single; exact A
    | intros g0 k E; unfold cur in E; cbn in E; rewrite map_app in E; cbn in E; rewrite last_app_single in E; injection E as <-;
      intros Hk; exfalso; apply Hnd; apply (B g k Ec); congruence
    | unfold TodoOK in *; cbn; destruct C as [C|(l & rest & Hl & Hcl & g1 & E1 & Hs)]; [left; exact C|]; right; exists l, rest; split; [exact Hl|]; split; [exact Hcl|];
      exists g'; split; [unfold cur; cbn; rewrite map_app; cbn; apply last_app_single | rewrite Hc'; rewrite Ec in E1; injection E1 as <-; exact Hs]
    | cbn; exact D ]; fail).
  (* a reader that has exited does nothing *)
  assert (rdone g) as Hd by exact Er. rewrite (rstep_done c m g (s_pos s) Hd). cbn. rewrite (upd_nth_same _ _ _ En).
  destruct Ho as [A B C D]. constructor; unfold cur, TodoOK in *; cbn; auto. rewrite orb_false_r. exact D.
Qed.

Lemma own_step c s ch : Own s -> (s_started s = false -> s_gens s = []) -> reader_join_timeout s ch = false -> Own (step c s ch).
Proof.
  intros Ho Hs0 Hjt. destruct ch as [t m]. destruct t as [|gi [|i|]].
  - unfold step. destruct (s_cdone s) eqn:Ecd; [exact Ho|].
    destruct (s_started s) eqn:Est; cbn [negb].
    + destruct (cur s) as [g|] eqn:Ec; [|exact Ho].
      destruct (cstep c m g) as [g' o] eqn:Estep. destruct o as [o|].
      * replace g' with (fst (cstep c m g)) by (rewrite Estep; reflexivity).
        apply (own_complete c m s g o Ho Ec Hjt Est Ecd). rewrite Estep. reflexivity.
      * (* the consumer stays inside its operation *)
        assert (g_r g' = g_r g) as Hr by (replace g' with (fst (cstep c m g)) by (rewrite Estep; reflexivity); apply cstep_r).
        destruct (in_shutdown (g_c g)) eqn:Esh.
        -- assert (~ (m = Timeout /\ g_c g = CShJoin 0 /\ r_alive g = true)) as Hnt.
           { intros (-> & Hc0 & Ha). cbn in Hjt. rewrite Est, Ecd, Ec, Hc0, Ha in Hjt. discriminate. }
           destruct (cstep_shutdown c m g Esh (fun k Hk => o_join _ Ho g k Ec Hk) Hnt) as [(_ & Hs' & Hj')|(Hs & _)];
             [|rewrite Estep in Hs; discriminate].
           rewrite Estep in Hs', Hj'. cbn in Hs', Hj'.
           destruct Ho as [A B C D]. constructor.
           ++ cbn. rewrite removelast_app_single. exact A.
           ++ intros g0 k E. rewrite cur_set_cur in E. injection E as <-. apply Hj'.
           ++ unfold TodoOK in *. cbn. destruct C as [C|(l & rest & Hl & Hcl & _)]; [left; exact C|]. right. exists l, rest. split; [exact Hl|]. split; [exact Hcl|].
              exists g'. split; [apply cur_set_cur | exact Hs'].
           ++ exact D.
        -- destruct (cstep_not_shutdown c m g Esh) as (Hnj & _ & _). rewrite Estep in Hnj. cbn in Hnj.
           assert (clean (s_todo s)) as Hcl.
           { destruct (o_todo _ Ho) as [Hcl|(l & rest & _ & _ & g1 & E1 & Hs)]; [exact Hcl|]. rewrite Ec in E1. injection E1 as <-. congruence. }
           apply own_of_core; [apply core_set_cur; [apply own_core, Ho | exact Hnj] | exact Hcl].
    + (* the consumer thread starts: nothing exists yet *)
      assert (cur s = None) as Ecn by (unfold cur; rewrite (Hs0 eq_refl); reflexivity).
      destruct (o_todo _ Ho) as [Hc|(l & rest & _ & _ & g1 & E1 & _)]; [|congruence].
      apply own_dispatch; [exact Hc|]. destruct Ho as [A B C D]. constructor; unfold cur in *; cbn; auto.
  - apply own_reader_step, Ho.
  - unfold step. apply own_upd_frame; [exact Ho|]. intros g. split; [apply wstep_r | apply wstep_c].
  - unfold step. apply own_upd_frame; [exact Ho|]. intros g. split; [apply sstep_r | apply sstep_c].
Qed.

Lemma own_init script : Own (init script).
Proof. constructor; cbn; [constructor | intros g k E; discriminate | left; apply clean_expand | reflexivity]. Qed.

(* C12, single ownership: along every schedule without a reader-join timeout no two threads are ever inside the source,
   and every reset / load starts reading a source nobody else is reading *)
Theorem single_owner c script : forall sched,
  jt_free c (init script) sched = true -> s_overlap (run c sched (init script)) = false.
Proof.
  intros sched. unfold run.
  assert (forall s, Own s -> Inv c s -> jt_free c s sched = true -> s_overlap (fold_left (step c) sched s) = false) as H.
  { induction sched as [|ch sched IH]; intros s Ho Hi Hj; cbn in *; [exact (o_ok _ Ho)|].
    apply andb_true_iff in Hj as [Hj1 Hj2]. apply negb_true_iff in Hj1.
    apply IH; [apply own_step; [exact Ho | exact (proj2 Hi) | exact Hj1] | apply inv_step, Hi | exact Hj2]. }
  apply H; [apply own_init | apply inv_init].
Qed.
