(* SdlApiModel.v — executable model of the StatefulDataLoader front-end
   (StatefulDataLoader.__iter__ / state_dict / load_state_dict / _get_iterator in
   stateful_dataloader.py) over an ABSTRACT iterator: a position in the epoch's batch list plus the
   _finished flag (that the concrete iterators realise "position k of the reference" is C01/C03).
   Iterator objects live in a heap because the user may still hold an old one after
   load_state_dict or a new iter().  No proofs here. *)
From PD Require Import Base.
Open Scope string_scope. Open Scope list_scope. Open Scope nat_scope.

Definition itst := (nat * bool)%type.                 (* (batches yielded, _finished) *)

Inductive sdv := SdEmpty | SdPos (st : itst).          (* load_state_dict argument: {} or a real state *)

Record fe := {
  fe_heap : list itst;                 (* every iterator object ever created *)
  fe_iterator : option nat;            (* self._iterator *)
  fe_flag : bool;                      (* self._initial_iter_for_state_dict *)
  fe_pending : option itst;            (* self.next_iter_state *)
  fe_handle : option nat }.            (* what the user's variable `it` points to *)

Definition fe_new : fe := {| fe_heap := []; fe_iterator := None; fe_flag := false; fe_pending := None; fe_handle := None |}.

Definition set_nth {A} (l : list A) (i : nat) (x : A) : list A :=
  firstn i l ++ match skipn i l with [] => [] | _ :: r => x :: r end.

(* _get_iterator(): a new iterator object, from next_iter_state when there is one *)
Definition get_iterator (f : fe) : fe * nat :=
  let st := match fe_pending f with Some s => s | None => (0, false) end in
  ({| fe_heap := fe_heap f ++ [st]; fe_iterator := fe_iterator f; fe_flag := fe_flag f; fe_pending := None;
      fe_handle := fe_handle f |}, length (fe_heap f)).

Definition with_iterator (f : fe) (i : nat) : fe :=
  {| fe_heap := fe_heap f; fe_iterator := Some i; fe_flag := fe_flag f; fe_pending := fe_pending f; fe_handle := fe_handle f |}.

(* __iter__ ; persistent = persistent_workers and num_workers > 0 *)
Definition fe_iter (persistent : bool) (f : fe) : fe :=
  let f1 :=
    if fe_flag f then {| fe_heap := fe_heap f; fe_iterator := fe_iterator f; fe_flag := false; fe_pending := fe_pending f;
                         fe_handle := fe_handle f |}
    else if persistent then
      match fe_iterator f with
      | None => let '(f', i) := get_iterator f in with_iterator f' i
      | Some i => {| fe_heap := set_nth (fe_heap f) i (0, false); fe_iterator := Some i; fe_flag := false;    (* _reset *)
                     fe_pending := fe_pending f; fe_handle := fe_handle f |}
      end
    else let '(f', i) := get_iterator f in with_iterator f' i in
  let f2 :=
    match fe_iterator f1 with
    | Some i =>
        if snd (nth i (fe_heap f1) (0, false)) then
          if persistent then {| fe_heap := set_nth (fe_heap f1) i (0, false); fe_iterator := Some i; fe_flag := fe_flag f1;
                                fe_pending := fe_pending f1; fe_handle := fe_handle f1 |}
          else let '(f', j) := get_iterator f1 in with_iterator f' j
        else f1
    | None => f1
    end in
  {| fe_heap := fe_heap f2; fe_iterator := fe_iterator f2; fe_flag := fe_flag f2; fe_pending := fe_pending f2;
     fe_handle := fe_iterator f2 |}.

(* state_dict() *)
Definition fe_state (f : fe) : itst * fe :=
  let f1 := match fe_iterator f with
            | Some _ => f
            | None => let '(f', i) := get_iterator f in
                      {| fe_heap := fe_heap f'; fe_iterator := Some i; fe_flag := true; fe_pending := fe_pending f';
                         fe_handle := fe_handle f' |}
            end in
  (match fe_iterator f1 with Some i => nth i (fe_heap f1) (0, false) | None => (0, false) end, f1).

(* load_state_dict(sd) *)
Definition fe_load (f : fe) (s : sdv) : fe :=
  {| fe_heap := fe_heap f; fe_iterator := None; fe_flag := false;
     fe_pending := match s with SdEmpty => fe_pending f | SdPos st => Some st end; fe_handle := fe_handle f |}.

Inductive feout := FBatch (k : nat) | FStop | FNoIter.

(* next(it) on the user's handle; L = number of batches of an epoch *)
Definition fe_next (L : nat) (f : fe) : feout * fe :=
  match fe_handle f with
  | None => (FNoIter, f)
  | Some i =>
      let '(k, fin) := nth i (fe_heap f) (0, false) in
      if k <? L then
        (FBatch k, {| fe_heap := set_nth (fe_heap f) i (S k, fin); fe_iterator := fe_iterator f; fe_flag := fe_flag f;
                      fe_pending := fe_pending f; fe_handle := fe_handle f |})
      else (FStop, {| fe_heap := set_nth (fe_heap f) i (k, true); fe_iterator := fe_iterator f; fe_flag := fe_flag f;
                      fe_pending := fe_pending f; fe_handle := fe_handle f |})
  end.

Inductive aop := AIter | ANext | AState | ALoad (i : nat) | ALoadEmpty | AFresh.

Fixpoint fe_history (L : nat) (persistent : bool) (ops : list aop) (f : fe) (saved : list itst) : list obs :=
  match ops with
  | [] => []
  | AIter :: r => OS "iter" :: fe_history L persistent r (fe_iter persistent f) saved
  | ANext :: r => let '(o, f') := fe_next L f in
                  (match o with FBatch k => OL [OS "batch"; onat k] | FStop => OS "stop" | FNoIter => OS "noiter" end)
                  :: fe_history L persistent r f' saved
  | AState :: r => let '(s, f') := fe_state f in
                   OL [OS "state"; onat (fst s); OB (snd s)] :: fe_history L persistent r f' (saved ++ [s])
  | ALoad i :: r => OS "load" :: fe_history L persistent r (fe_load f (SdPos (nth i saved (0, false)))) saved
  | ALoadEmpty :: r => OS "load" :: fe_history L persistent r (fe_load f SdEmpty) saved
  | AFresh :: r => OS "fresh" :: fe_history L persistent r fe_new saved
  end.
Definition fe_obs (L : nat) (persistent : bool) (ops : list aop) : obs := OL (fe_history L persistent ops fe_new []).

