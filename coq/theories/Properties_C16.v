(* Properties_C16.v — C16: an incompatible checkpoint is rejected, never silently mis-resumed.
   Model and proofs: SdlCompat.v (the constructor as a staged machine with a process table).
   Partial: that __del__ of the half-built iterator runs (CPython refcounting) is assumed; the
   correspondence run observes the live children after every rejected load. *)
From PD Require Import Base SdlCompat.
Open Scope nat_scope.

(* for ALL ordered pairs (saving num_workers, loading num_workers), 0 included on either side:
   the next iteration is accepted iff they are equal *)
Theorem C16_mismatch_rejected_iff : forall Wl Ws, fst (construct Wl (shape_of Ws)) = true <-> Ws = Wl.
Proof. exact construct_accepts_iff. Qed.
Print Assumptions C16_mismatch_rejected_iff.

Theorem C16_reject_leaves_no_workers : forall Wl sd, fst (construct Wl sd) = false -> snd (construct Wl sd) = 0.
Proof. exact reject_leaves_no_workers. Qed.
Print Assumptions C16_reject_leaves_no_workers.

Theorem C16_match_accepted : forall W, construct W (shape_of W) = (true, W).
Proof. exact accepted_has_all_workers. Qed.
Print Assumptions C16_match_accepted.

(* loading {} is a no-op: the next iter() is a fresh epoch; after a rejected load a valid load is accepted *)
Theorem C16_empty_dict_noop : forall W f, fc_pending f = None -> fst (fc_iter W (fc_load f None)) = IterOk.
Proof. intros W f H. unfold fc_iter, fc_load. cbn. rewrite H. reflexivity. Qed.
Print Assumptions C16_empty_dict_noop.

Theorem C16_usable_after_valid_load : forall Wl Ws f, Ws <> Wl ->
  let '(r1, f1) := fc_iter Wl (fc_load f (Some (shape_of Ws))) in
  r1 = IterRaises /\ fc_children f1 = 0 /\
  fst (fc_iter Wl f1) = IterRaises /\                                   (* retrying without a new load raises again *)
  fc_iter Wl (fc_load f1 (Some (shape_of Wl))) = (IterOk, {| fc_pending := None; fc_children := Wl |}).
Proof.
  intros Wl Ws f Hne. unfold fc_iter, fc_load. cbn [fc_pending fc_children].
  destruct (construct Wl (shape_of Ws)) as [ok procs] eqn:E.
  assert (ok = false) as ->.
  { destruct ok; [|reflexivity]. exfalso. apply Hne. apply (construct_accepts_iff Wl Ws). rewrite E. reflexivity. }
  cbn [fc_pending fc_children]. rewrite E. rewrite accepted_has_all_workers. repeat split; reflexivity.
Qed.
Print Assumptions C16_usable_after_valid_load.
