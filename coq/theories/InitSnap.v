(* InitSnap.v — D20: the start-up handshake of Prefetcher / PinMemory / ParallelMapper (QueueSnapshotStore.get_initial_snapshot)
   as a two-thread interleaving model with the LIVENESS TEST AS A STEP OF ITS OWN.

     consumer:  while snapshot is None:                      reader (_populate_queue):
                    try: snapshot = q.get(timeout)               append_initial_snapshot(...)      (RStart  -> RWork)
                    except Empty: pass                           ... forwards the source ...        (RWork   -> RWork)
                    if not thread.is_alive():                    returns                            (RWork   -> RDead)
                        [fixed: if snapshot is None: try snapshot = q.get_nowait() except Empty: pass]
                        break
                if snapshot is None: raise RuntimeError("Failed to get initial snapshot")

   A schedule picks, at every step, the reader or the consumer; a consumer blocked in the timed get either waits (not a step) or
   times out (a step).  `fixed = false` is the code before commit 1ce2a70, `fixed = true` the code after it. *)
From Coq Require Import List Bool Arith Lia.
Import ListNotations.

Inductive rstate := RStart | RWork | RDead.
Inductive cstate :=
| CGet          (* about to perform / inside the timed q.get *)
| CAlive        (* the get raised Empty; about to read thread.is_alive() *)
| CLast         (* fixed code only: the thread was found dead; about to q.get_nowait() *)
| CGot          (* left the loop with the snapshot *)
| CFail.        (* left the loop without it: RuntimeError *)

Record st := { rs : rstate; cs : cstate; inq : bool (* the initial snapshot sits in the store queue *) }.
Definition init : st := {| rs := RStart; cs := CGet; inq := false |}.

Inductive move := MReader | MConsumer.

Definition step (fixed : bool) (s : st) (m : move) : st :=
  match m with
  | MReader =>
      match rs s with
      | RStart => {| rs := RWork; cs := cs s; inq := true |}          (* append_initial_snapshot *)
      | RWork => {| rs := RDead; cs := cs s; inq := inq s |}          (* ... and, eventually, return *)
      | RDead => s
      end
  | MConsumer =>
      match cs s with
      | CGet => if inq s then {| rs := rs s; cs := CGot; inq := false |}                    (* the get returns the snapshot *)
                else {| rs := rs s; cs := CAlive; inq := false |}                            (* the poll expires: queue.Empty *)
      | CAlive => match rs s with
                  | RDead => {| rs := rs s; cs := if fixed then CLast else CFail; inq := inq s |}
                  | _ => {| rs := rs s; cs := CGet; inq := inq s |}                          (* alive: poll again *)
                  end
      | CLast => if inq s then {| rs := rs s; cs := CGot; inq := false |} else {| rs := rs s; cs := CFail; inq := false |}
      | CGot => s
      | CFail => s
      end
  end.

Definition run (fixed : bool) (sched : list move) : st := fold_left (step fixed) sched init.

(* the code before the fix: the schedule  poll expires / reader appends / reader returns / liveness test  fails a healthy start-up *)
Theorem old_code_refuted : exists sched, cs (run false sched) = CFail.
Proof. exists [MConsumer; MReader; MReader; MConsumer]. reflexivity. Qed.

(* the fixed code: under EVERY schedule the consumer never fails — the reader always appends before it returns *)
Definition Inv (s : st) : Prop :=
  cs s <> CFail /\
  (rs s = RStart -> inq s = false /\ cs s <> CLast /\ cs s <> CGot) /\
  (rs s <> RStart -> inq s = true \/ cs s = CGot).

Lemma inv_init : Inv init.
Proof. unfold Inv, init; cbn. repeat split; try discriminate. intros H. exfalso. apply H. reflexivity. Qed.

Lemma inv_step s m : Inv s -> Inv (step true s m).
Proof.
  intros (Hf & Hs & Hn). destruct s as [r c q]. cbn in *.
  destruct m; cbn.
  - destruct r; cbn.
    + split; [exact Hf|]. split; [intros E; discriminate|]. intros _. left. reflexivity.
    + split; [exact Hf|]. split; [intros E; discriminate|]. intros _. apply Hn. discriminate.
    + split; [exact Hf|]. split; [exact Hs | exact Hn].
  - destruct c; cbn.
    + destruct q; cbn.
      * split; [discriminate|]. split; [intros E; destruct (Hs E) as [E1 _]; discriminate|]. intros _. right. reflexivity.
      * split; [discriminate|]. split; [intros E; repeat split; discriminate|].
        intros Hr. destruct (Hn Hr) as [E|E]; discriminate.
    + destruct r; cbn.
      * split; [discriminate|]. split; [intros _; destruct (Hs eq_refl) as [E1 _]; repeat split; [exact E1 | discriminate | discriminate]|].
        intros Hr. exfalso. apply Hr. reflexivity.
      * split; [discriminate|]. split; [intros E; discriminate|]. intros _. destruct (Hn ltac:(discriminate)) as [E|E]; [left; exact E | discriminate].
      * split; [discriminate|]. split; [intros E; discriminate|]. intros _. destruct (Hn ltac:(discriminate)) as [E|E]; [left; exact E | discriminate].
    + destruct q; cbn.
      * split; [discriminate|]. split; [intros E; destruct (Hs E) as (_ & E2 & _); exfalso; apply E2; reflexivity|]. intros _. right. reflexivity.
      * exfalso. destruct r.
        -- destruct (Hs eq_refl) as (_ & E2 & _). apply E2. reflexivity.
        -- destruct (Hn ltac:(discriminate)) as [E|E]; discriminate.
        -- destruct (Hn ltac:(discriminate)) as [E|E]; discriminate.
    + split; [exact Hf|]. split; [exact Hs | exact Hn].
    + exfalso. apply Hf. reflexivity.
Qed.

Lemma inv_run : forall sched s, Inv s -> Inv (fold_left (step true) sched s).
Proof. induction sched as [|m ms IH]; intros s Hs; [exact Hs|]. cbn [fold_left]. apply IH. apply inv_step. exact Hs. Qed.

Theorem fixed_code_never_fails : forall sched, cs (run true sched) <> CFail.
Proof.
  intros sched. unfold run.
  pose proof (inv_run sched) as H.
  exact (proj1 (H init inv_init)).
Qed.

(* ... and it does get the snapshot as soon as the reader has started and the consumer is given two more steps *)
Theorem fixed_code_gets_snapshot : forall sched, rs (run true sched) <> RStart ->
  cs (run true (sched ++ [MConsumer; MConsumer; MConsumer])) = CGot.
Proof.
  intros sched Hr. unfold run in *. rewrite fold_left_app.
  pose proof (inv_run sched) as H.
  pose proof (H init inv_init) as (Hf & Hs & Hn).
  specialize (Hn Hr). destruct (fold_left (step true) sched init) as [r c q]. cbn in *. clear Hs H.
  destruct Hn as [-> | ->]; [|reflexivity].
  destruct c; cbn; try reflexivity.
  - destruct r; reflexivity.
  - exfalso. apply Hf. reflexivity.
Qed.
Print Assumptions fixed_code_never_fails.
Print Assumptions old_code_refuted.
Print Assumptions fixed_code_gets_snapshot.
