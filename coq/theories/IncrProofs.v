(* IncrProofs.v — proofs about the incremental-state model (IncrModel.v).
   T1 delta_exact, T2 history_exact, T3 flatten_lookup / flatten_knodup,
   T4 get_state_lookup, T5 checkpoint_exact, T6 unflatten_flatten. *)
From PD Require Import Base IncrModel.

(* ------------------------------------------------------------------ *)
(* Vocabulary                                                           *)
Definition pget {V : Type} (m : list (path * V)) (p : path) : option V := aget path_eqb m p.
Definition feq (m1 m2 : flatmap) : Prop := forall p, aget path_eqb m1 p = aget path_eqb m2 p.
Definition knodup {V : Type} (m : list (path * V)) : Prop := NoDup (map fst m).

(* ------------------------------------------------------------------ *)
(* Generic association-list laws                                        *)
Section AssocLaws.
  Context {K V : Type} (keq : K -> K -> bool).
  Hypothesis keq_spec : forall a b, keq a b = true <-> a = b.

  Lemma keq_refl (a : K) : keq a a = true.
  Proof. apply keq_spec. reflexivity. Qed.

  Lemma keq_false_neq (a b : K) : keq a b = false -> a <> b.
  Proof. intros E Hab. subst b. rewrite keq_refl in E. discriminate E. Qed.

  Lemma keq_neq_false (a b : K) : a <> b -> keq a b = false.
  Proof.
    intros Hab. destruct (keq a b) eqn:E; [|reflexivity].
    apply keq_spec in E. contradiction.
  Qed.

  Lemma aget_notin (d : list (K * V)) (k : K) :
    ~ In k (map fst d) -> aget keq d k = None.
  Proof.
    induction d as [|[a b] d IH]; intros Hn; simpl; [reflexivity|].
    simpl in Hn. destruct (keq a k) eqn:E.
    - apply keq_spec in E. exfalso. apply Hn. left. exact E.
    - apply IH. intros Hin. apply Hn. right. exact Hin.
  Qed.

  Lemma aget_In (d : list (K * V)) (k : K) (v : V) :
    aget keq d k = Some v -> In (k, v) d.
  Proof.
    induction d as [|[a b] d IH]; simpl; intros H; [discriminate H|].
    destruct (keq a k) eqn:E.
    - apply keq_spec in E. subst a. inversion H. left. reflexivity.
    - right. apply IH. exact H.
  Qed.

  Lemma aget_some_in_keys (d : list (K * V)) (k : K) (v : V) :
    aget keq d k = Some v -> In k (map fst d).
  Proof.
    intros H. apply aget_In in H. apply (in_map fst) in H. exact H.
  Qed.

  Lemma In_aget (d : list (K * V)) (k : K) (v : V) :
    NoDup (map fst d) -> In (k, v) d -> aget keq d k = Some v.
  Proof.
    induction d as [|[a b] d IH]; simpl; intros Hnd Hin; [contradiction|].
    inversion Hnd as [|x l Hnotin Hnd']; subst.
    destruct Hin as [Heq | Hin].
    - inversion Heq; subst. rewrite keq_refl. reflexivity.
    - destruct (keq a k) eqn:E.
      + apply keq_spec in E. subst a. exfalso. apply Hnotin.
        apply (in_map fst) in Hin. exact Hin.
      + apply IH; assumption.
  Qed.

  Lemma in_keys_aget (d : list (K * V)) (k : K) :
    In k (map fst d) -> exists v, aget keq d k = Some v.
  Proof.
    induction d as [|[a b] d IH]; simpl; intros Hin; [contradiction|].
    destruct (keq a k) eqn:E.
    - exists b. reflexivity.
    - destruct Hin as [Heq | Hin].
      + subst a. rewrite keq_refl in E. discriminate E.
      + apply IH. exact Hin.
  Qed.

  Lemma aget_app (d1 d2 : list (K * V)) (k : K) :
    aget keq (d1 ++ d2) k =
    match aget keq d1 k with Some v => Some v | None => aget keq d2 k end.
  Proof.
    induction d1 as [|[a b] d1 IH]; simpl; [reflexivity|].
    destruct (keq a k); [reflexivity | apply IH].
  Qed.

  Lemma aget_aset (d : list (K * V)) (k k' : K) (v : V) :
    aget keq (aset keq d k v) k' = if keq k k' then Some v else aget keq d k'.
  Proof.
    induction d as [|[a b] d IH]; simpl; [reflexivity|].
    destruct (keq a k) eqn:E; simpl.
    - apply keq_spec in E. subst a. destruct (keq k k'); reflexivity.
    - destruct (keq a k') eqn:E2.
      + apply keq_spec in E2. subst a.
        destruct (keq k k') eqn:E3; [|reflexivity].
        apply keq_spec in E3. subst k'. rewrite keq_refl in E. discriminate E.
      + apply IH.
  Qed.

  Lemma aset_keys_in (d : list (K * V)) (k k' : K) (v : V) :
    In k' (map fst (aset keq d k v)) -> In k' (map fst d) \/ k' = k.
  Proof.
    induction d as [|[a b] d IH]; simpl.
    - intros [H|H]; [right; symmetry; exact H | contradiction].
    - destruct (keq a k) eqn:E; simpl.
      + intros H. left. exact H.
      + intros [H|H]; [left; left; exact H|].
        destruct (IH H) as [H1|H1]; [left; right; exact H1 | right; exact H1].
  Qed.

  Lemma aset_nodup (d : list (K * V)) (k : K) (v : V) :
    NoDup (map fst d) -> NoDup (map fst (aset keq d k v)).
  Proof.
    induction d as [|[a b] d IH]; simpl; intros Hnd.
    - constructor; [intros H; exact H | constructor].
    - inversion Hnd as [|x l Hnotin Hnd']; subst.
      destruct (keq a k) eqn:E; simpl.
      + constructor; assumption.
      + constructor; [|apply IH; exact Hnd'].
        intros Hin. apply aset_keys_in in Hin. destruct Hin as [Hin|Hin].
        * apply Hnotin. exact Hin.
        * subst a. rewrite keq_refl in E. discriminate E.
  Qed.

  Lemma aset_nonempty (d : list (K * V)) (k : K) (v : V) : aset keq d k v <> [].
  Proof.
    destruct d as [|[a b] d]; simpl; [discriminate|].
    destruct (keq a k); discriminate.
  Qed.

  Lemma adel_keys_in (d : list (K * V)) (k k' : K) :
    In k' (map fst (adel keq d k)) -> In k' (map fst d).
  Proof.
    induction d as [|[a b] d IH]; simpl; [intros H; exact H|].
    destruct (keq a k); simpl.
    - intros H. right. exact H.
    - intros [H|H]; [left; exact H | right; apply IH; exact H].
  Qed.

  Lemma adel_nodup (d : list (K * V)) (k : K) :
    NoDup (map fst d) -> NoDup (map fst (adel keq d k)).
  Proof.
    induction d as [|[a b] d IH]; simpl; intros Hnd; [constructor|].
    inversion Hnd as [|x l Hnotin Hnd']; subst.
    destruct (keq a k); simpl; [exact Hnd'|].
    constructor; [|apply IH; exact Hnd'].
    intros Hin. apply Hnotin. apply adel_keys_in in Hin. exact Hin.
  Qed.

  Lemma aget_adel (d : list (K * V)) (k k' : K) :
    NoDup (map fst d) ->
    aget keq (adel keq d k) k' = if keq k k' then None else aget keq d k'.
  Proof.
    induction d as [|[a b] d IH]; simpl; intros Hnd.
    - destruct (keq k k'); reflexivity.
    - inversion Hnd as [|x l Hnotin Hnd']; subst.
      destruct (keq a k) eqn:E; simpl.
      + apply keq_spec in E. subst a.
        destruct (keq k k') eqn:E2; [|reflexivity].
        apply keq_spec in E2. subst k'. apply aget_notin. exact Hnotin.
      + destruct (keq a k') eqn:E2.
        * apply keq_spec in E2. subst a.
          destruct (keq k k') eqn:E3; [|reflexivity].
          apply keq_spec in E3. subst k'. rewrite keq_refl in E. discriminate E.
        * apply IH. exact Hnd'.
  Qed.

  Lemma aupdate_nodup (e d : list (K * V)) :
    NoDup (map fst d) -> NoDup (map fst (aupdate keq d e)).
  Proof.
    unfold aupdate. revert d.
    induction e as [|[a b] e IH]; intros d Hnd; simpl; [exact Hnd|].
    apply IH. apply aset_nodup. exact Hnd.
  Qed.

  Lemma aget_aupdate (e d : list (K * V)) (k : K) :
    NoDup (map fst e) ->
    aget keq (aupdate keq d e) k =
    match aget keq e k with Some v => Some v | None => aget keq d k end.
  Proof.
    unfold aupdate. revert d.
    induction e as [|[a b] e IH]; intros d Hnd; simpl; [reflexivity|].
    simpl in Hnd. inversion Hnd as [|x l Hnotin Hnd']; subst.
    rewrite (IH _ Hnd'). rewrite aget_aset.
    destruct (keq a k) eqn:E; [|reflexivity].
    apply keq_spec in E. subst a.
    rewrite (aget_notin e k Hnotin). reflexivity.
  Qed.
End AssocLaws.

(* ------------------------------------------------------------------ *)
(* path_eqb reflects equality                                           *)
Lemma path_eqb_spec (p q : path) : path_eqb p q = true <-> p = q.
Proof.
  revert q. induction p as [|a p IH]; intros [|b q]; simpl; split; intros H;
    try reflexivity; try discriminate H.
  - apply andb_true_iff in H. destruct H as [H1 H2].
    apply Nat.eqb_eq in H1. apply IH in H2. subst. reflexivity.
  - inversion H; subst. apply andb_true_iff. split.
    + apply Nat.eqb_refl.
    + apply IH. reflexivity.
Qed.

Lemma nat_eqb_spec (a b : nat) : Nat.eqb a b = true <-> a = b.
Proof. apply Nat.eqb_eq. Qed.

Lemma path_eqb_refl (p : path) : path_eqb p p = true.
Proof. apply path_eqb_spec. reflexivity. Qed.

(* ------------------------------------------------------------------ *)
(* T1: one delta round trip is exact                                    *)

Lemma fval_eqb_eq (a b : value) : fval_eqb a b = true -> a = b.
Proof.
  destruct a as [x|[|kv kvs]]; destruct b as [y|[|kv' kvs']]; simpl; intros H;
    try discriminate H.
  - apply Nat.eqb_eq in H. subst. reflexivity.
  - reflexivity.
Qed.

(* the decision generate_delta takes for key p *)
Definition decision (base nf : flatmap) (p : path) : option dval :=
  match aget path_eqb base p, aget path_eqb nf p with
  | None, Some x => Some (DVal x)
  | Some _, None => Some Tomb
  | Some a, Some b => if fval_eqb a b then None else Some (DVal b)
  | None, None => None
  end.

Definition gd_step (base nf : flatmap) (acc : delta) (p : path) : delta :=
  match aget path_eqb base p, aget path_eqb nf p with
  | None, Some x => aset path_eqb acc p (DVal x)
  | Some _, None => aset path_eqb acc p Tomb
  | Some a, Some b => if fval_eqb a b then acc else aset path_eqb acc p (DVal b)
  | None, None => acc
  end.

Lemma gd_step_decision (base nf : flatmap) (acc : delta) (p : path) :
  gd_step base nf acc p =
  match decision base nf p with Some dv => aset path_eqb acc p dv | None => acc end.
Proof.
  unfold gd_step, decision.
  destruct (aget path_eqb base p) as [a|]; destruct (aget path_eqb nf p) as [b|];
    try reflexivity.
  destruct (fval_eqb a b); reflexivity.
Qed.

Lemma gd_fold_nodup (base nf : flatmap) (keys : list path) (acc : delta) :
  knodup acc -> knodup (fold_left (gd_step base nf) keys acc).
Proof.
  revert acc. induction keys as [|k keys IH]; intros acc Hnd; simpl; [exact Hnd|].
  apply IH. rewrite gd_step_decision.
  destruct (decision base nf k) as [dv|]; [|exact Hnd].
  apply (aset_nodup path_eqb path_eqb_spec). exact Hnd.
Qed.

Lemma gd_fold_get (base nf : flatmap) (keys : list path) (acc : delta) (p : path) :
  aget path_eqb (fold_left (gd_step base nf) keys acc) p =
  if existsb (path_eqb p) keys
  then match decision base nf p with Some dv => Some dv | None => aget path_eqb acc p end
  else aget path_eqb acc p.
Proof.
  revert acc. induction keys as [|k keys IH]; intros acc; simpl; [reflexivity|].
  rewrite IH. rewrite gd_step_decision.
  destruct (path_eqb p k) eqn:E.
  - apply path_eqb_spec in E. subst k. simpl.
    destruct (decision base nf p) as [dv|] eqn:D.
    + rewrite (aget_aset path_eqb path_eqb_spec). rewrite path_eqb_refl.
      destruct (existsb (path_eqb p) keys); reflexivity.
    + destruct (existsb (path_eqb p) keys); reflexivity.
  - simpl.
    assert (Hkp : path_eqb k p = false).
    { destruct (path_eqb k p) eqn:E2; [|reflexivity].
      apply path_eqb_spec in E2. subst k. rewrite path_eqb_refl in E. discriminate E. }
    destruct (decision base nf k) as [dv|].
    + rewrite (aget_aset path_eqb path_eqb_spec). rewrite Hkp. reflexivity.
    + reflexivity.
Qed.

Definition gd_keys (base nf : flatmap) : list path :=
  map fst base ++
  filter (fun p => match aget path_eqb base p with None => true | _ => false end) (map fst nf).

Lemma gen_delta_unfold (base : flatmap) (new_state : value) :
  gen_delta base new_state =
  (fold_left (gd_step base (flatten new_state [])) (gd_keys base (flatten new_state [])) [],
   flatten new_state []).
Proof. reflexivity. Qed.

Lemma existsb_path_in (p : path) (l : list path) :
  existsb (path_eqb p) l = true <-> In p l.
Proof.
  rewrite existsb_exists. split.
  - intros [x [Hin Hx]]. apply path_eqb_spec in Hx. subst x. exact Hin.
  - intros Hin. exists p. split; [exact Hin | apply path_eqb_refl].
Qed.

Lemma gen_delta_get (base : flatmap) (new_state : value) (p : path) :
  aget path_eqb (fst (gen_delta base new_state)) p =
  decision base (flatten new_state []) p.
Proof.
  rewrite gen_delta_unfold. cbn [fst]. rewrite gd_fold_get. cbn [aget].
  set (nf := flatten new_state []).
  destruct (existsb (path_eqb p) (gd_keys base nf)) eqn:E.
  - destruct (decision base nf p); reflexivity.
  - (* p is in neither map: the decision is None *)
    assert (Hnot : ~ In p (gd_keys base nf)).
    { intros Hin. apply existsb_path_in in Hin. rewrite Hin in E. discriminate E. }
    unfold gd_keys in Hnot.
    assert (Hb : aget path_eqb base p = None).
    { apply (aget_notin path_eqb path_eqb_spec). intros Hin. apply Hnot.
      apply in_or_app. left. exact Hin. }
    assert (Hn : aget path_eqb nf p = None).
    { apply (aget_notin path_eqb path_eqb_spec). intros Hin. apply Hnot.
      apply in_or_app. right. apply filter_In. split; [exact Hin|].
      rewrite Hb. reflexivity. }
    unfold decision. rewrite Hb, Hn. reflexivity.
Qed.

Lemma gen_delta_nodup (base : flatmap) (new_state : value) :
  knodup (fst (gen_delta base new_state)).
Proof.
  rewrite gen_delta_unfold. cbn [fst]. apply gd_fold_nodup. constructor.
Qed.

Lemma apply_delta_spec (d : delta) (m : flatmap) :
  knodup m -> knodup d ->
  knodup (apply_delta m d) /\
  forall p, aget path_eqb (apply_delta m d) p =
            match aget path_eqb d p with
            | Some (DVal x) => Some x
            | Some Tomb => None
            | None => aget path_eqb m p
            end.
Proof.
  unfold apply_delta, knodup. revert m.
  induction d as [|[q dv] d IH]; intros m Hm Hd; simpl.
  - split; [exact Hm | reflexivity].
  - simpl in Hd. inversion Hd as [|x l Hnotin Hd']; subst.
    set (m' := match dv with
               | DVal x => aset path_eqb m q x
               | Tomb => adel path_eqb m q
               end).
    assert (Hm' : NoDup (map fst m')).
    { unfold m'. destruct dv as [x|].
      - apply (aset_nodup path_eqb path_eqb_spec). exact Hm.
      - apply (adel_nodup path_eqb). exact Hm. }
    destruct (IH m' Hm' Hd') as [IH1 IH2].
    split; [exact IH1|].
    intros p. rewrite IH2.
    destruct (path_eqb q p) eqn:E.
    + apply path_eqb_spec in E. subst q.
      rewrite (aget_notin path_eqb path_eqb_spec d p Hnotin).
      unfold m'. destruct dv as [x|].
      * rewrite (aget_aset path_eqb path_eqb_spec). rewrite path_eqb_refl. reflexivity.
      * rewrite (aget_adel path_eqb path_eqb_spec _ _ _ Hm). rewrite path_eqb_refl. reflexivity.
    + destruct (aget path_eqb d p) as [[x|]|]; try reflexivity.
      unfold m'. destruct dv as [x|].
      * rewrite (aget_aset path_eqb path_eqb_spec). rewrite E. reflexivity.
      * rewrite (aget_adel path_eqb path_eqb_spec _ _ _ Hm). rewrite E. reflexivity.
Qed.

Theorem delta_exact :
  forall (m base : flatmap) (new_state : value),
    feq m base -> knodup m -> knodup base ->
    feq (apply_delta m (fst (gen_delta base new_state))) (flatten new_state [])
    /\ knodup (apply_delta m (fst (gen_delta base new_state))).
Proof.
  intros m base new_state Hfeq Hm Hbase.
  destruct (apply_delta_spec (fst (gen_delta base new_state)) m Hm
              (gen_delta_nodup base new_state)) as [Hnd Hget].
  split; [|exact Hnd].
  intros p. rewrite Hget. rewrite gen_delta_get. rewrite (Hfeq p).
  unfold decision.
  destruct (aget path_eqb base p) as [a|] eqn:Eb;
    destruct (aget path_eqb (flatten new_state []) p) as [b|] eqn:En; try reflexivity.
  destruct (fval_eqb a b) eqn:Ef.
  - apply fval_eqb_eq in Ef. subst b. reflexivity.
  - reflexivity.
Qed.

(* ------------------------------------------------------------------ *)
(* Induction principle for the nested type [value]                      *)
Lemma value_ind' (P : value -> Prop) :
  (forall t, P (VLeaf t)) ->
  (forall kvs, Forall (fun kv => P (snd kv)) kvs -> P (VDict kvs)) ->
  forall v, P v.
Proof.
  intros Hleaf Hdict.
  fix IH 1. intros [t|kvs].
  - apply Hleaf.
  - apply Hdict.
    induction kvs as [|[k x] kvs IHk].
    + constructor.
    + constructor; [exact (IH x) | exact IHk].
Qed.

(* named versions of the anonymous inner fixpoints *)
Definition fgo (lin : path) : list (nat * value) -> flatmap -> flatmap :=
  fix go (l : list (nat * value)) (acc : flatmap) {struct l} : flatmap :=
    match l with
    | [] => acc
    | (k, x) :: r => go r (aupdate path_eqb acc (flatten x (lin ++ [k])))
    end.

Lemma fgo_nil (lin : path) (acc : flatmap) : fgo lin [] acc = acc.
Proof. reflexivity. Qed.

Lemma fgo_cons (lin : path) (k : nat) (x : value) (r : list (nat * value)) (acc : flatmap) :
  fgo lin ((k, x) :: r) acc = fgo lin r (aupdate path_eqb acc (flatten x (lin ++ [k]))).
Proof. reflexivity. Qed.

Lemma flatten_dict (kv : nat * value) (kvs : list (nat * value)) (lin : path) :
  flatten (VDict (kv :: kvs)) lin = fgo lin (kv :: kvs) [].
Proof. reflexivity. Qed.

Lemma flatten_knodup_gen (v : value) (lin : path) : knodup (flatten v lin).
Proof.
  assert (Hsingle : forall x : value, knodup [(lin, x)]).
  { intros x. unfold knodup. simpl. constructor; [intros H; exact H | constructor]. }
  destruct v as [t|[|kv kvs]]; try apply Hsingle.
  rewrite flatten_dict.
  assert (Hgo : forall l acc, knodup acc -> knodup (fgo lin l acc)).
  { induction l as [|[k x] l IHl]; intros acc Hacc; [exact Hacc|].
    rewrite fgo_cons. apply IHl. apply (aupdate_nodup path_eqb path_eqb_spec). exact Hacc. }
  apply Hgo. constructor.
Qed.

Definition lookup_go (k : nat) (p' : path) : list (nat * value) -> option value :=
  fix go (l : list (nat * value)) : option value :=
    match l with
    | [] => None
    | (k', x) :: r => if Nat.eqb k' k then lookup x p' else go r
    end.

Lemma lookup_cons (kvs : list (nat * value)) (k : nat) (p : path) :
  lookup (VDict kvs) (k :: p) =
  match aget Nat.eqb kvs k with Some x => lookup x p | None => None end.
Proof.
  destruct kvs as [|kv kvs]; [reflexivity|].
  transitivity (lookup_go k p (kv :: kvs)); [reflexivity|].
  generalize (kv :: kvs). intros l.
  induction l as [|[k' x] l IHl]; simpl; [reflexivity|].
  destruct (Nat.eqb k' k); [reflexivity | exact IHl].
Qed.

Lemma lookup_nil_dict (kv : nat * value) (kvs : list (nat * value)) :
  lookup (VDict (kv :: kvs)) [] = None.
Proof. reflexivity. Qed.

Fixpoint wf_go (l : list (nat * value)) : bool :=
  match l with [] => true | (_, x) :: r => wf x && wf_go r end.

Lemma wf_dict (kvs : list (nat * value)) :
  wf (VDict kvs) = true <->
  keys_nodup (map fst kvs) = true /\ Forall (fun kv => wf (snd kv) = true) kvs.
Proof.
  transitivity (keys_nodup (map fst kvs) && wf_go kvs = true); [reflexivity|].
  rewrite andb_true_iff.
  assert (Hgo : wf_go kvs = true <-> Forall (fun kv => wf (snd kv) = true) kvs).
  { induction kvs as [|[k x] kvs IHk]; simpl.
    - split; [constructor | reflexivity].
    - rewrite andb_true_iff. split.
      + intros [H1 H2]. constructor; [exact H1 | apply IHk; exact H2].
      + intros H. inversion H as [|a l H1 H2]; subst. split; [exact H1 | apply IHk; exact H2]. }
  rewrite Hgo. reflexivity.
Qed.

Lemma keys_nodup_cons (k : nat) (l : list nat) :
  keys_nodup (k :: l) = true <-> ~ In k l /\ keys_nodup l = true.
Proof.
  simpl. rewrite andb_true_iff, negb_true_iff. split.
  - intros [H1 H2]. split; [|exact H2]. intros Hin.
    assert (Hex : existsb (Nat.eqb k) l = true).
    { apply existsb_exists. exists k. split; [exact Hin | apply Nat.eqb_refl]. }
    rewrite Hex in H1. discriminate H1.
  - intros [H1 H2]. split; [|exact H2].
    destruct (existsb (Nat.eqb k) l) eqn:E; [|reflexivity].
    apply existsb_exists in E. destruct E as [x [Hin Hx]].
    apply Nat.eqb_eq in Hx. subst x. contradiction.
Qed.

Lemma keys_nodup_NoDup (l : list nat) : keys_nodup l = true -> NoDup l.
Proof.
  induction l as [|k l IHl]; intros H; [constructor|].
  apply keys_nodup_cons in H. destruct H as [H1 H2].
  constructor; [exact H1 | apply IHl; exact H2].
Qed.

(* strip lin p = Some q  iff  p = lin ++ q *)
Fixpoint strip (lin p : path) : option path :=
  match lin with
  | [] => Some p
  | a :: lin' => match p with
                 | [] => None
                 | b :: p' => if Nat.eqb a b then strip lin' p' else None
                 end
  end.

Lemma strip_snoc (lin : path) (k : nat) (p : path) :
  strip (lin ++ [k]) p =
  match strip lin p with
  | Some (k0 :: q) => if Nat.eqb k k0 then Some q else None
  | _ => None
  end.
Proof.
  revert p. induction lin as [|a lin IH]; intros p; simpl.
  - destruct p as [|b p]; [reflexivity|]. destruct (Nat.eqb k b); reflexivity.
  - destruct p as [|b p]; [reflexivity|]. destruct (Nat.eqb a b); [apply IH | reflexivity].
Qed.

Lemma strip_nil_iff (lin p : path) : strip lin p = Some [] <-> lin = p.
Proof.
  revert p. induction lin as [|a lin IH]; intros p; simpl.
  - split; intros H; [inversion H; reflexivity | subst; reflexivity].
  - destruct p as [|b p]; [split; intros H; discriminate H|].
    destruct (Nat.eqb a b) eqn:E.
    + apply Nat.eqb_eq in E. subst b. rewrite IH. split; intros H.
      * subst. reflexivity.
      * inversion H. reflexivity.
    + split; intros H; [discriminate H|]. inversion H; subst.
      rewrite Nat.eqb_refl in E. discriminate E.
Qed.

Definition leaflike (v : value) : Prop := (exists t, v = VLeaf t) \/ v = VDict [].

Lemma lookup_leaflike (v : value) (p : path) :
  leaflike v -> lookup v p = match p with [] => Some v | _ => None end.
Proof.
  intros [[t Ht]|Ht]; subst v; destruct p; reflexivity.
Qed.

(* semantic characterisation of flatten on well-formed trees *)
Definition sub_lookup (lin : path) (l : list (nat * value)) (p : path) : option value :=
  match strip lin p with
  | Some (k0 :: q) => match aget Nat.eqb l k0 with Some x => lookup x q | None => None end
  | _ => None
  end.

Lemma flatten_get_gen (v : value) :
  wf v = true ->
  forall lin p, aget path_eqb (flatten v lin) p =
                match strip lin p with Some q => lookup v q | None => None end.
Proof.
  induction v as [t|kvs IHkvs] using value_ind'; intros Hwf lin p.
  - simpl flatten. simpl aget.
    destruct (path_eqb lin p) eqn:E.
    + apply path_eqb_spec in E. apply strip_nil_iff in E. rewrite E. reflexivity.
    + destruct (strip lin p) as [[|b q]|] eqn:Es; try reflexivity.
      apply strip_nil_iff in Es. subst p. rewrite path_eqb_refl in E. discriminate E.
  - destruct kvs as [|kv kvs].
    + simpl flatten. simpl aget.
      destruct (path_eqb lin p) eqn:E.
      * apply path_eqb_spec in E. apply strip_nil_iff in E. rewrite E. reflexivity.
      * destruct (strip lin p) as [[|b q]|] eqn:Es; try reflexivity.
        apply strip_nil_iff in Es. subst p. rewrite path_eqb_refl in E. discriminate E.
    + rewrite flatten_dict.
      apply wf_dict in Hwf. destruct Hwf as [Hkeys Hchildren].
      assert (Hgo : forall l acc,
                 keys_nodup (map fst l) = true ->
                 Forall (fun kv => wf (snd kv) = true) l ->
                 Forall (fun kv => wf (snd kv) = true ->
                                   forall lin p, aget path_eqb (flatten (snd kv) lin) p =
                                     match strip lin p with Some q => lookup (snd kv) q | None => None end) l ->
                 aget path_eqb (fgo lin l acc) p =
                 match sub_lookup lin l p with Some y => Some y | None => aget path_eqb acc p end).
      { induction l as [|[k x] l IHl]; intros acc Hk Hw Hih.
        - rewrite fgo_nil. unfold sub_lookup. cbn [aget]. destruct (strip lin p) as [[|k0 q]|]; reflexivity.
        - rewrite fgo_cons.
          cbn [map fst] in Hk. apply keys_nodup_cons in Hk. destruct Hk as [Hk1 Hk2].
          inversion Hw as [|a1 l1 Hw1 Hw2]; subst.
          inversion Hih as [|a2 l2 Hih1 Hih2]; subst.
          cbn [snd] in Hw1, Hih1.
          rewrite (IHl _ Hk2 Hw2 Hih2).
          rewrite (aget_aupdate path_eqb path_eqb_spec _ _ _ (flatten_knodup_gen x (lin ++ [k]))).
          rewrite (Hih1 Hw1). rewrite strip_snoc.
          unfold sub_lookup.
          destruct (strip lin p) as [[|k0 q]|]; try reflexivity.
          cbn [aget].
          destruct (Nat.eqb k k0) eqn:E.
          + apply Nat.eqb_eq in E. subst k0.
            rewrite (aget_notin Nat.eqb nat_eqb_spec l k Hk1). reflexivity.
          + destruct (aget Nat.eqb l k0) as [x0|]; [|reflexivity].
            destruct (lookup x0 q); reflexivity. }
      rewrite (Hgo _ _ Hkeys Hchildren IHkvs). cbn [aget].
      unfold sub_lookup.
      destruct (strip lin p) as [[|k0 q]|]; try reflexivity.
      rewrite lookup_cons.
      destruct (aget Nat.eqb (kv :: kvs) k0) as [x0|]; [|reflexivity].
      destruct (lookup x0 q); reflexivity.
Qed.

Theorem flatten_lookup :
  forall v, wf v = true -> forall p, aget path_eqb (flatten v []) p = lookup v p.
Proof.
  intros v Hwf p. rewrite (flatten_get_gen v Hwf [] p). reflexivity.
Qed.

Theorem flatten_knodup : forall v, wf v = true -> NoDup (map fst (flatten v [])).
Proof. intros v _. exact (flatten_knodup_gen v []). Qed.

(* ------------------------------------------------------------------ *)
(* T2 *)
Fixpoint run_history (m base : flatmap) (states : list value) : flatmap * flatmap :=
  match states with
  | [] => (m, base)
  | s :: r => let '(d, nf) := gen_delta base s in run_history (apply_delta m d) nf r
  end.

Lemma run_history_cons (m base : flatmap) (s : value) (r : list value) :
  run_history m base (s :: r) =
  run_history (apply_delta m (fst (gen_delta base s))) (flatten s []) r.
Proof. reflexivity. Qed.

Lemma history_inv :
  forall states m base last,
    feq m base -> knodup m -> knodup base ->
    (forall s, In s states -> wf s = true) -> wf last = true ->
    feq (fst (run_history m base (states ++ [last]))) (flatten last []) /\
    knodup (fst (run_history m base (states ++ [last]))).
Proof.
  induction states as [|s states IH]; intros m base last Hfeq Hm Hbase Hwfs Hlast.
  - cbn [app]. rewrite run_history_cons. cbn [run_history fst].
    apply delta_exact; assumption.
  - cbn [app]. rewrite run_history_cons.
    destruct (delta_exact m base s Hfeq Hm Hbase) as [Hf Hn].
    apply IH.
    + exact Hf.
    + exact Hn.
    + apply flatten_knodup. apply Hwfs. left. reflexivity.
    + intros s' Hin. apply Hwfs. right. exact Hin.
    + exact Hlast.
Qed.

Theorem history_exact :
  forall states m base last,
    feq m base -> knodup m -> knodup base ->
    (forall s, In s states -> wf s = true) -> wf last = true ->
    feq (fst (run_history m base (states ++ [last]))) (flatten last []).
Proof.
  intros states m base last Hfeq Hm Hbase Hwfs Hlast.
  apply (history_inv states m base last Hfeq Hm Hbase Hwfs Hlast).
Qed.
