(* IncrProofs.v — proofs about the incremental-state model (IncrModel.v).
   T1 delta_exact, T2 history_exact, T3 flatten_lookup / flatten_knodup,
   T4 get_state_lookup, T5 checkpoint_exact, T6 unflatten_flatten. *)
From PD Require Import Base IncrModel.

(* ------------------------------------------------------------------ *)
(* Vocabulary                                                           *)
Definition pget {V : Type} (m : list (path * V)) (p : path) : option V := aget path_eqb m p.
Definition feq (m1 m2 : flatmap) : Prop := forall p, aget path_eqb m1 p = aget path_eqb m2 p.
Definition knodup {V : Type} (m : list (path * V)) : Prop := NoDup (map fst m).

(* ------------------------------------------------------------------ *)
(* Generic association-list laws                                        *)
Section AssocLaws.
  Context {K V : Type} (keq : K -> K -> bool).
  Hypothesis keq_spec : forall a b, keq a b = true <-> a = b.

  Lemma keq_refl (a : K) : keq a a = true.
  Proof. apply keq_spec. reflexivity. Qed.

  Lemma keq_false_neq (a b : K) : keq a b = false -> a <> b.
  Proof. intros E Hab. subst b. rewrite keq_refl in E. discriminate E. Qed.

  Lemma keq_neq_false (a b : K) : a <> b -> keq a b = false.
  Proof.
    intros Hab. destruct (keq a b) eqn:E; [|reflexivity].
    apply keq_spec in E. contradiction.
  Qed.

  Lemma aget_notin (d : list (K * V)) (k : K) :
    ~ In k (map fst d) -> aget keq d k = None.
  Proof.
    induction d as [|[a b] d IH]; intros Hn; simpl; [reflexivity|].
    simpl in Hn. destruct (keq a k) eqn:E.
    - apply keq_spec in E. exfalso. apply Hn. left. exact E.
    - apply IH. intros Hin. apply Hn. right. exact Hin.
  Qed.

  Lemma aget_In (d : list (K * V)) (k : K) (v : V) :
    aget keq d k = Some v -> In (k, v) d.
  Proof.
    induction d as [|[a b] d IH]; simpl; intros H; [discriminate H|].
    destruct (keq a k) eqn:E.
    - apply keq_spec in E. subst a. inversion H. left. reflexivity.
    - right. apply IH. exact H.
  Qed.

  Lemma aget_some_in_keys (d : list (K * V)) (k : K) (v : V) :
    aget keq d k = Some v -> In k (map fst d).
  Proof.
    intros H. apply aget_In in H. apply (in_map fst) in H. exact H.
  Qed.

  Lemma In_aget (d : list (K * V)) (k : K) (v : V) :
    NoDup (map fst d) -> In (k, v) d -> aget keq d k = Some v.
  Proof.
    induction d as [|[a b] d IH]; simpl; intros Hnd Hin; [contradiction|].
    inversion Hnd as [|x l Hnotin Hnd']; subst.
    destruct Hin as [Heq | Hin].
    - inversion Heq; subst. rewrite keq_refl. reflexivity.
    - destruct (keq a k) eqn:E.
      + apply keq_spec in E. subst a. exfalso. apply Hnotin.
        apply (in_map fst) in Hin. exact Hin.
      + apply IH; assumption.
  Qed.

  Lemma in_keys_aget (d : list (K * V)) (k : K) :
    In k (map fst d) -> exists v, aget keq d k = Some v.
  Proof.
    induction d as [|[a b] d IH]; simpl; intros Hin; [contradiction|].
    destruct (keq a k) eqn:E.
    - exists b. reflexivity.
    - destruct Hin as [Heq | Hin].
      + subst a. rewrite keq_refl in E. discriminate E.
      + apply IH. exact Hin.
  Qed.

  Lemma aget_app (d1 d2 : list (K * V)) (k : K) :
    aget keq (d1 ++ d2) k =
    match aget keq d1 k with Some v => Some v | None => aget keq d2 k end.
  Proof.
    induction d1 as [|[a b] d1 IH]; simpl; [reflexivity|].
    destruct (keq a k); [reflexivity | apply IH].
  Qed.

  Lemma aget_aset (d : list (K * V)) (k k' : K) (v : V) :
    aget keq (aset keq d k v) k' = if keq k k' then Some v else aget keq d k'.
  Proof.
    induction d as [|[a b] d IH]; simpl; [reflexivity|].
    destruct (keq a k) eqn:E; simpl.
    - apply keq_spec in E. subst a. destruct (keq k k'); reflexivity.
    - destruct (keq a k') eqn:E2.
      + apply keq_spec in E2. subst a.
        destruct (keq k k') eqn:E3; [|reflexivity].
        apply keq_spec in E3. subst k'. rewrite keq_refl in E. discriminate E.
      + apply IH.
  Qed.

  Lemma aset_keys_in (d : list (K * V)) (k k' : K) (v : V) :
    In k' (map fst (aset keq d k v)) -> In k' (map fst d) \/ k' = k.
  Proof.
    induction d as [|[a b] d IH]; simpl.
    - intros [H|H]; [right; symmetry; exact H | contradiction].
    - destruct (keq a k) eqn:E; simpl.
      + intros H. left. exact H.
      + intros [H|H]; [left; left; exact H|].
        destruct (IH H) as [H1|H1]; [left; right; exact H1 | right; exact H1].
  Qed.

  Lemma aset_nodup (d : list (K * V)) (k : K) (v : V) :
    NoDup (map fst d) -> NoDup (map fst (aset keq d k v)).
  Proof.
    induction d as [|[a b] d IH]; simpl; intros Hnd.
    - constructor; [intros H; exact H | constructor].
    - inversion Hnd as [|x l Hnotin Hnd']; subst.
      destruct (keq a k) eqn:E; simpl.
      + constructor; assumption.
      + constructor; [|apply IH; exact Hnd'].
        intros Hin. apply aset_keys_in in Hin. destruct Hin as [Hin|Hin].
        * apply Hnotin. exact Hin.
        * subst a. rewrite keq_refl in E. discriminate E.
  Qed.

  Lemma aset_nonempty (d : list (K * V)) (k : K) (v : V) : aset keq d k v <> [].
  Proof.
    destruct d as [|[a b] d]; simpl; [discriminate|].
    destruct (keq a k); discriminate.
  Qed.

  Lemma adel_keys_in (d : list (K * V)) (k k' : K) :
    In k' (map fst (adel keq d k)) -> In k' (map fst d).
  Proof.
    induction d as [|[a b] d IH]; simpl; [intros H; exact H|].
    destruct (keq a k); simpl.
    - intros H. right. exact H.
    - intros [H|H]; [left; exact H | right; apply IH; exact H].
  Qed.

  Lemma adel_nodup (d : list (K * V)) (k : K) :
    NoDup (map fst d) -> NoDup (map fst (adel keq d k)).
  Proof.
    induction d as [|[a b] d IH]; simpl; intros Hnd; [constructor|].
    inversion Hnd as [|x l Hnotin Hnd']; subst.
    destruct (keq a k); simpl; [exact Hnd'|].
    constructor; [|apply IH; exact Hnd'].
    intros Hin. apply Hnotin. apply adel_keys_in in Hin. exact Hin.
  Qed.

  Lemma aget_adel (d : list (K * V)) (k k' : K) :
    NoDup (map fst d) ->
    aget keq (adel keq d k) k' = if keq k k' then None else aget keq d k'.
  Proof.
    induction d as [|[a b] d IH]; simpl; intros Hnd.
    - destruct (keq k k'); reflexivity.
    - inversion Hnd as [|x l Hnotin Hnd']; subst.
      destruct (keq a k) eqn:E; simpl.
      + apply keq_spec in E. subst a.
        destruct (keq k k') eqn:E2; [|reflexivity].
        apply keq_spec in E2. subst k'. apply aget_notin. exact Hnotin.
      + destruct (keq a k') eqn:E2.
        * apply keq_spec in E2. subst a.
          destruct (keq k k') eqn:E3; [|reflexivity].
          apply keq_spec in E3. subst k'. rewrite keq_refl in E. discriminate E.
        * apply IH. exact Hnd'.
  Qed.

  Lemma aupdate_nodup (e d : list (K * V)) :
    NoDup (map fst d) -> NoDup (map fst (aupdate keq d e)).
  Proof.
    unfold aupdate. revert d.
    induction e as [|[a b] e IH]; intros d Hnd; simpl; [exact Hnd|].
    apply IH. apply aset_nodup. exact Hnd.
  Qed.

  Lemma aget_aupdate (e d : list (K * V)) (k : K) :
    NoDup (map fst e) ->
    aget keq (aupdate keq d e) k =
    match aget keq e k with Some v => Some v | None => aget keq d k end.
  Proof.
    unfold aupdate. revert d.
    induction e as [|[a b] e IH]; intros d Hnd; simpl; [reflexivity|].
    simpl in Hnd. inversion Hnd as [|x l Hnotin Hnd']; subst.
    rewrite (IH _ Hnd'). rewrite aget_aset.
    destruct (keq a k) eqn:E; [|reflexivity].
    apply keq_spec in E. subst a.
    rewrite (aget_notin e k Hnotin). reflexivity.
  Qed.
End AssocLaws.

(* ------------------------------------------------------------------ *)
(* path_eqb reflects equality                                           *)
Lemma path_eqb_spec (p q : path) : path_eqb p q = true <-> p = q.
Proof.
  revert q. induction p as [|a p IH]; intros [|b q]; simpl; split; intros H;
    try reflexivity; try discriminate H.
  - apply andb_true_iff in H. destruct H as [H1 H2].
    apply Nat.eqb_eq in H1. apply IH in H2. subst. reflexivity.
  - inversion H; subst. apply andb_true_iff. split.
    + apply Nat.eqb_refl.
    + apply IH. reflexivity.
Qed.

Lemma nat_eqb_spec (a b : nat) : Nat.eqb a b = true <-> a = b.
Proof. apply Nat.eqb_eq. Qed.

Lemma path_eqb_refl (p : path) : path_eqb p p = true.
Proof. apply path_eqb_spec. reflexivity. Qed.

(* ------------------------------------------------------------------ *)
(* T1: one delta round trip is exact                                    *)

Lemma fval_eqb_eq (a b : value) : fval_eqb a b = true -> a = b.
Proof.
  destruct a as [x|[|kv kvs]]; destruct b as [y|[|kv' kvs']]; simpl; intros H;
    try discriminate H.
  - apply Nat.eqb_eq in H. subst. reflexivity.
  - reflexivity.
Qed.

(* the decision generate_delta takes for key p *)
Definition decision (base nf : flatmap) (p : path) : option dval :=
  match aget path_eqb base p, aget path_eqb nf p with
  | None, Some x => Some (DVal x)
  | Some _, None => Some Tomb
  | Some a, Some b => if fval_eqb a b then None else Some (DVal b)
  | None, None => None
  end.

Definition gd_step (base nf : flatmap) (acc : delta) (p : path) : delta :=
  match aget path_eqb base p, aget path_eqb nf p with
  | None, Some x => aset path_eqb acc p (DVal x)
  | Some _, None => aset path_eqb acc p Tomb
  | Some a, Some b => if fval_eqb a b then acc else aset path_eqb acc p (DVal b)
  | None, None => acc
  end.

Lemma gd_step_decision (base nf : flatmap) (acc : delta) (p : path) :
  gd_step base nf acc p =
  match decision base nf p with Some dv => aset path_eqb acc p dv | None => acc end.
Proof.
  unfold gd_step, decision.
  destruct (aget path_eqb base p) as [a|]; destruct (aget path_eqb nf p) as [b|];
    try reflexivity.
  destruct (fval_eqb a b); reflexivity.
Qed.

Lemma gd_fold_nodup (base nf : flatmap) (keys : list path) (acc : delta) :
  knodup acc -> knodup (fold_left (gd_step base nf) keys acc).
Proof.
  revert acc. induction keys as [|k keys IH]; intros acc Hnd; simpl; [exact Hnd|].
  apply IH. rewrite gd_step_decision.
  destruct (decision base nf k) as [dv|]; [|exact Hnd].
  apply (aset_nodup path_eqb path_eqb_spec). exact Hnd.
Qed.

Lemma gd_fold_get (base nf : flatmap) (keys : list path) (acc : delta) (p : path) :
  aget path_eqb (fold_left (gd_step base nf) keys acc) p =
  if existsb (path_eqb p) keys
  then match decision base nf p with Some dv => Some dv | None => aget path_eqb acc p end
  else aget path_eqb acc p.
Proof.
  revert acc. induction keys as [|k keys IH]; intros acc; simpl; [reflexivity|].
  rewrite IH. rewrite gd_step_decision.
  destruct (path_eqb p k) eqn:E.
  - apply path_eqb_spec in E. subst k. simpl.
    destruct (decision base nf p) as [dv|] eqn:D.
    + rewrite (aget_aset path_eqb path_eqb_spec). rewrite path_eqb_refl.
      destruct (existsb (path_eqb p) keys); reflexivity.
    + destruct (existsb (path_eqb p) keys); reflexivity.
  - simpl.
    assert (Hkp : path_eqb k p = false).
    { destruct (path_eqb k p) eqn:E2; [|reflexivity].
      apply path_eqb_spec in E2. subst k. rewrite path_eqb_refl in E. discriminate E. }
    destruct (decision base nf k) as [dv|].
    + rewrite (aget_aset path_eqb path_eqb_spec). rewrite Hkp. reflexivity.
    + reflexivity.
Qed.

Definition gd_keys (base nf : flatmap) : list path :=
  map fst base ++
  filter (fun p => match aget path_eqb base p with None => true | _ => false end) (map fst nf).

Lemma gen_delta_unfold (base : flatmap) (new_state : value) :
  gen_delta base new_state =
  (fold_left (gd_step base (flatten new_state [])) (gd_keys base (flatten new_state [])) [],
   flatten new_state []).
Proof. reflexivity. Qed.

Lemma existsb_path_in (p : path) (l : list path) :
  existsb (path_eqb p) l = true <-> In p l.
Proof.
  rewrite existsb_exists. split.
  - intros [x [Hin Hx]]. apply path_eqb_spec in Hx. subst x. exact Hin.
  - intros Hin. exists p. split; [exact Hin | apply path_eqb_refl].
Qed.

Lemma gen_delta_get (base : flatmap) (new_state : value) (p : path) :
  aget path_eqb (fst (gen_delta base new_state)) p =
  decision base (flatten new_state []) p.
Proof.
  rewrite gen_delta_unfold. cbn [fst]. rewrite gd_fold_get. cbn [aget].
  set (nf := flatten new_state []).
  destruct (existsb (path_eqb p) (gd_keys base nf)) eqn:E.
  - destruct (decision base nf p); reflexivity.
  - (* p is in neither map: the decision is None *)
    assert (Hnot : ~ In p (gd_keys base nf)).
    { intros Hin. apply existsb_path_in in Hin. rewrite Hin in E. discriminate E. }
    unfold gd_keys in Hnot.
    assert (Hb : aget path_eqb base p = None).
    { apply (aget_notin path_eqb path_eqb_spec). intros Hin. apply Hnot.
      apply in_or_app. left. exact Hin. }
    assert (Hn : aget path_eqb nf p = None).
    { apply (aget_notin path_eqb path_eqb_spec). intros Hin. apply Hnot.
      apply in_or_app. right. apply filter_In. split; [exact Hin|].
      rewrite Hb. reflexivity. }
    unfold decision. rewrite Hb, Hn. reflexivity.
Qed.

Lemma gen_delta_nodup (base : flatmap) (new_state : value) :
  knodup (fst (gen_delta base new_state)).
Proof.
  rewrite gen_delta_unfold. cbn [fst]. apply gd_fold_nodup. constructor.
Qed.

Lemma apply_delta_spec (d : delta) (m : flatmap) :
  knodup m -> knodup d ->
  knodup (apply_delta m d) /\
  forall p, aget path_eqb (apply_delta m d) p =
            match aget path_eqb d p with
            | Some (DVal x) => Some x
            | Some Tomb => None
            | None => aget path_eqb m p
            end.
Proof.
  unfold apply_delta, knodup. revert m.
  induction d as [|[q dv] d IH]; intros m Hm Hd; simpl.
  - split; [exact Hm | reflexivity].
  - simpl in Hd. inversion Hd as [|x l Hnotin Hd']; subst.
    set (m' := match dv with
               | DVal x => aset path_eqb m q x
               | Tomb => adel path_eqb m q
               end).
    assert (Hm' : NoDup (map fst m')).
    { unfold m'. destruct dv as [x|].
      - apply (aset_nodup path_eqb path_eqb_spec). exact Hm.
      - apply (adel_nodup path_eqb). exact Hm. }
    destruct (IH m' Hm' Hd') as [IH1 IH2].
    split; [exact IH1|].
    intros p. rewrite IH2.
    destruct (path_eqb q p) eqn:E.
    + apply path_eqb_spec in E. subst q.
      rewrite (aget_notin path_eqb path_eqb_spec d p Hnotin).
      unfold m'. destruct dv as [x|].
      * rewrite (aget_aset path_eqb path_eqb_spec). rewrite path_eqb_refl. reflexivity.
      * rewrite (aget_adel path_eqb path_eqb_spec _ _ _ Hm). rewrite path_eqb_refl. reflexivity.
    + destruct (aget path_eqb d p) as [[x|]|]; try reflexivity.
      unfold m'. destruct dv as [x|].
      * rewrite (aget_aset path_eqb path_eqb_spec). rewrite E. reflexivity.
      * rewrite (aget_adel path_eqb path_eqb_spec _ _ _ Hm). rewrite E. reflexivity.
Qed.

Theorem delta_exact :
  forall (m base : flatmap) (new_state : value),
    feq m base -> knodup m -> knodup base ->
    feq (apply_delta m (fst (gen_delta base new_state))) (flatten new_state [])
    /\ knodup (apply_delta m (fst (gen_delta base new_state))).
Proof.
  intros m base new_state Hfeq Hm Hbase.
  destruct (apply_delta_spec (fst (gen_delta base new_state)) m Hm
              (gen_delta_nodup base new_state)) as [Hnd Hget].
  split; [|exact Hnd].
  intros p. rewrite Hget. rewrite gen_delta_get. rewrite (Hfeq p).
  unfold decision.
  destruct (aget path_eqb base p) as [a|] eqn:Eb;
    destruct (aget path_eqb (flatten new_state []) p) as [b|] eqn:En; try reflexivity.
  destruct (fval_eqb a b) eqn:Ef.
  - apply fval_eqb_eq in Ef. subst b. reflexivity.
  - reflexivity.
Qed.

(* ------------------------------------------------------------------ *)
(* Induction principle for the nested type [value]                      *)
Lemma value_ind' (P : value -> Prop) :
  (forall t, P (VLeaf t)) ->
  (forall kvs, Forall (fun kv => P (snd kv)) kvs -> P (VDict kvs)) ->
  forall v, P v.
Proof.
  intros Hleaf Hdict.
  fix IH 1. intros [t|kvs].
  - apply Hleaf.
  - apply Hdict.
    induction kvs as [|[k x] kvs IHk].
    + constructor.
    + constructor; [exact (IH x) | exact IHk].
Qed.

(* named versions of the anonymous inner fixpoints *)
Definition fgo (lin : path) : list (nat * value) -> flatmap -> flatmap :=
  fix go (l : list (nat * value)) (acc : flatmap) {struct l} : flatmap :=
    match l with
    | [] => acc
    | (k, x) :: r => go r (aupdate path_eqb acc (flatten x (lin ++ [k])))
    end.

Lemma fgo_nil (lin : path) (acc : flatmap) : fgo lin [] acc = acc.
Proof. reflexivity. Qed.

Lemma fgo_cons (lin : path) (k : nat) (x : value) (r : list (nat * value)) (acc : flatmap) :
  fgo lin ((k, x) :: r) acc = fgo lin r (aupdate path_eqb acc (flatten x (lin ++ [k]))).
Proof. reflexivity. Qed.

Lemma flatten_dict (kv : nat * value) (kvs : list (nat * value)) (lin : path) :
  flatten (VDict (kv :: kvs)) lin = fgo lin (kv :: kvs) [].
Proof. reflexivity. Qed.

Lemma flatten_knodup_gen (v : value) (lin : path) : knodup (flatten v lin).
Proof.
  assert (Hsingle : forall x : value, knodup [(lin, x)]).
  { intros x. unfold knodup. simpl. constructor; [intros H; exact H | constructor]. }
  destruct v as [t|[|kv kvs]]; try apply Hsingle.
  rewrite flatten_dict.
  assert (Hgo : forall l acc, knodup acc -> knodup (fgo lin l acc)).
  { induction l as [|[k x] l IHl]; intros acc Hacc; [exact Hacc|].
    rewrite fgo_cons. apply IHl. apply (aupdate_nodup path_eqb path_eqb_spec). exact Hacc. }
  apply Hgo. constructor.
Qed.

Definition lookup_go (k : nat) (p' : path) : list (nat * value) -> option value :=
  fix go (l : list (nat * value)) : option value :=
    match l with
    | [] => None
    | (k', x) :: r => if Nat.eqb k' k then lookup x p' else go r
    end.

Lemma lookup_cons (kvs : list (nat * value)) (k : nat) (p : path) :
  lookup (VDict kvs) (k :: p) =
  match aget Nat.eqb kvs k with Some x => lookup x p | None => None end.
Proof.
  destruct kvs as [|kv kvs]; [reflexivity|].
  transitivity (lookup_go k p (kv :: kvs)); [reflexivity|].
  generalize (kv :: kvs). intros l.
  induction l as [|[k' x] l IHl]; simpl; [reflexivity|].
  destruct (Nat.eqb k' k); [reflexivity | exact IHl].
Qed.

Lemma lookup_nil_dict (kv : nat * value) (kvs : list (nat * value)) :
  lookup (VDict (kv :: kvs)) [] = None.
Proof. reflexivity. Qed.

Fixpoint wf_go (l : list (nat * value)) : bool :=
  match l with [] => true | (_, x) :: r => wf x && wf_go r end.

Lemma wf_dict (kvs : list (nat * value)) :
  wf (VDict kvs) = true <->
  keys_nodup (map fst kvs) = true /\ Forall (fun kv => wf (snd kv) = true) kvs.
Proof.
  transitivity (keys_nodup (map fst kvs) && wf_go kvs = true); [reflexivity|].
  rewrite andb_true_iff.
  assert (Hgo : wf_go kvs = true <-> Forall (fun kv => wf (snd kv) = true) kvs).
  { induction kvs as [|[k x] kvs IHk]; simpl.
    - split; [constructor | reflexivity].
    - rewrite andb_true_iff. split.
      + intros [H1 H2]. constructor; [exact H1 | apply IHk; exact H2].
      + intros H. inversion H as [|a l H1 H2]; subst. split; [exact H1 | apply IHk; exact H2]. }
  rewrite Hgo. reflexivity.
Qed.

Lemma keys_nodup_cons (k : nat) (l : list nat) :
  keys_nodup (k :: l) = true <-> ~ In k l /\ keys_nodup l = true.
Proof.
  simpl. rewrite andb_true_iff, negb_true_iff. split.
  - intros [H1 H2]. split; [|exact H2]. intros Hin.
    assert (Hex : existsb (Nat.eqb k) l = true).
    { apply existsb_exists. exists k. split; [exact Hin | apply Nat.eqb_refl]. }
    rewrite Hex in H1. discriminate H1.
  - intros [H1 H2]. split; [|exact H2].
    destruct (existsb (Nat.eqb k) l) eqn:E; [|reflexivity].
    apply existsb_exists in E. destruct E as [x [Hin Hx]].
    apply Nat.eqb_eq in Hx. subst x. contradiction.
Qed.

Lemma keys_nodup_NoDup (l : list nat) : keys_nodup l = true -> NoDup l.
Proof.
  induction l as [|k l IHl]; intros H; [constructor|].
  apply keys_nodup_cons in H. destruct H as [H1 H2].
  constructor; [exact H1 | apply IHl; exact H2].
Qed.

(* strip lin p = Some q  iff  p = lin ++ q *)
Fixpoint strip (lin p : path) : option path :=
  match lin with
  | [] => Some p
  | a :: lin' => match p with
                 | [] => None
                 | b :: p' => if Nat.eqb a b then strip lin' p' else None
                 end
  end.

Lemma strip_snoc (lin : path) (k : nat) (p : path) :
  strip (lin ++ [k]) p =
  match strip lin p with
  | Some (k0 :: q) => if Nat.eqb k k0 then Some q else None
  | _ => None
  end.
Proof.
  revert p. induction lin as [|a lin IH]; intros p; simpl.
  - destruct p as [|b p]; [reflexivity|]. destruct (Nat.eqb k b); reflexivity.
  - destruct p as [|b p]; [reflexivity|]. destruct (Nat.eqb a b); [apply IH | reflexivity].
Qed.

Lemma strip_nil_iff (lin p : path) : strip lin p = Some [] <-> lin = p.
Proof.
  revert p. induction lin as [|a lin IH]; intros p; simpl.
  - split; intros H; [inversion H; reflexivity | subst; reflexivity].
  - destruct p as [|b p]; [split; intros H; discriminate H|].
    destruct (Nat.eqb a b) eqn:E.
    + apply Nat.eqb_eq in E. subst b. rewrite IH. split; intros H.
      * subst. reflexivity.
      * inversion H. reflexivity.
    + split; intros H; [discriminate H|]. inversion H; subst.
      rewrite Nat.eqb_refl in E. discriminate E.
Qed.

Definition leaflike (v : value) : Prop := (exists t, v = VLeaf t) \/ v = VDict [].

Lemma lookup_leaflike (v : value) (p : path) :
  leaflike v -> lookup v p = match p with [] => Some v | _ => None end.
Proof.
  intros [[t Ht]|Ht]; subst v; destruct p; reflexivity.
Qed.

(* semantic characterisation of flatten on well-formed trees *)
Definition sub_lookup (lin : path) (l : list (nat * value)) (p : path) : option value :=
  match strip lin p with
  | Some (k0 :: q) => match aget Nat.eqb l k0 with Some x => lookup x q | None => None end
  | _ => None
  end.

Lemma flatten_get_gen (v : value) :
  wf v = true ->
  forall lin p, aget path_eqb (flatten v lin) p =
                match strip lin p with Some q => lookup v q | None => None end.
Proof.
  induction v as [t|kvs IHkvs] using value_ind'; intros Hwf lin p.
  - simpl flatten. simpl aget.
    destruct (path_eqb lin p) eqn:E.
    + apply path_eqb_spec in E. apply strip_nil_iff in E. rewrite E. reflexivity.
    + destruct (strip lin p) as [[|b q]|] eqn:Es; try reflexivity.
      apply strip_nil_iff in Es. subst p. rewrite path_eqb_refl in E. discriminate E.
  - destruct kvs as [|kv kvs].
    + simpl flatten. simpl aget.
      destruct (path_eqb lin p) eqn:E.
      * apply path_eqb_spec in E. apply strip_nil_iff in E. rewrite E. reflexivity.
      * destruct (strip lin p) as [[|b q]|] eqn:Es; try reflexivity.
        apply strip_nil_iff in Es. subst p. rewrite path_eqb_refl in E. discriminate E.
    + rewrite flatten_dict.
      apply wf_dict in Hwf. destruct Hwf as [Hkeys Hchildren].
      assert (Hgo : forall l acc,
                 keys_nodup (map fst l) = true ->
                 Forall (fun kv => wf (snd kv) = true) l ->
                 Forall (fun kv => wf (snd kv) = true ->
                                   forall lin p, aget path_eqb (flatten (snd kv) lin) p =
                                     match strip lin p with Some q => lookup (snd kv) q | None => None end) l ->
                 aget path_eqb (fgo lin l acc) p =
                 match sub_lookup lin l p with Some y => Some y | None => aget path_eqb acc p end).
      { induction l as [|[k x] l IHl]; intros acc Hk Hw Hih.
        - rewrite fgo_nil. unfold sub_lookup. cbn [aget]. destruct (strip lin p) as [[|k0 q]|]; reflexivity.
        - rewrite fgo_cons.
          cbn [map fst] in Hk. apply keys_nodup_cons in Hk. destruct Hk as [Hk1 Hk2].
          inversion Hw as [|a1 l1 Hw1 Hw2]; subst.
          inversion Hih as [|a2 l2 Hih1 Hih2]; subst.
          cbn [snd] in Hw1, Hih1.
          rewrite (IHl _ Hk2 Hw2 Hih2).
          rewrite (aget_aupdate path_eqb path_eqb_spec _ _ _ (flatten_knodup_gen x (lin ++ [k]))).
          rewrite (Hih1 Hw1). rewrite strip_snoc.
          unfold sub_lookup.
          destruct (strip lin p) as [[|k0 q]|]; try reflexivity.
          cbn [aget].
          destruct (Nat.eqb k k0) eqn:E.
          + apply Nat.eqb_eq in E. subst k0.
            rewrite (aget_notin Nat.eqb nat_eqb_spec l k Hk1). reflexivity.
          + destruct (aget Nat.eqb l k0) as [x0|]; [|reflexivity].
            destruct (lookup x0 q); reflexivity. }
      rewrite (Hgo _ _ Hkeys Hchildren IHkvs). cbn [aget].
      unfold sub_lookup.
      destruct (strip lin p) as [[|k0 q]|]; try reflexivity.
      rewrite lookup_cons.
      destruct (aget Nat.eqb (kv :: kvs) k0) as [x0|]; [|reflexivity].
      destruct (lookup x0 q); reflexivity.
Qed.

Theorem flatten_lookup :
  forall v, wf v = true -> forall p, aget path_eqb (flatten v []) p = lookup v p.
Proof.
  intros v Hwf p. rewrite (flatten_get_gen v Hwf [] p). reflexivity.
Qed.

Theorem flatten_knodup : forall v, wf v = true -> NoDup (map fst (flatten v [])).
Proof. intros v _. exact (flatten_knodup_gen v []). Qed.

(* ------------------------------------------------------------------ *)
(* T2 *)
Fixpoint run_history (m base : flatmap) (states : list value) : flatmap * flatmap :=
  match states with
  | [] => (m, base)
  | s :: r => let '(d, nf) := gen_delta base s in run_history (apply_delta m d) nf r
  end.

Lemma run_history_cons (m base : flatmap) (s : value) (r : list value) :
  run_history m base (s :: r) =
  run_history (apply_delta m (fst (gen_delta base s))) (flatten s []) r.
Proof. reflexivity. Qed.

Lemma history_inv :
  forall states m base last,
    feq m base -> knodup m -> knodup base ->
    (forall s, In s states -> wf s = true) -> wf last = true ->
    feq (fst (run_history m base (states ++ [last]))) (flatten last []) /\
    knodup (fst (run_history m base (states ++ [last]))).
Proof.
  induction states as [|s states IH]; intros m base last Hfeq Hm Hbase Hwfs Hlast.
  - cbn [app]. rewrite run_history_cons. cbn [run_history fst].
    apply delta_exact; assumption.
  - cbn [app]. rewrite run_history_cons.
    destruct (delta_exact m base s Hfeq Hm Hbase) as [Hf Hn].
    apply IH.
    + exact Hf.
    + exact Hn.
    + apply flatten_knodup. apply Hwfs. left. reflexivity.
    + intros s' Hin. apply Hwfs. right. exact Hin.
    + exact Hlast.
Qed.

Theorem history_exact :
  forall states m base last,
    feq m base -> knodup m -> knodup base ->
    (forall s, In s states -> wf s = true) -> wf last = true ->
    feq (fst (run_history m base (states ++ [last]))) (flatten last []).
Proof.
  intros states m base last Hfeq Hm Hbase Hwfs Hlast.
  apply (history_inv states m base last Hfeq Hm Hbase Hwfs Hlast).
Qed.

(* ------------------------------------------------------------------ *)
(* T4: unflatten on any key-distinct flat map that agrees pointwise with
   flatten v [] rebuilds a tree with the same leaves as v.              *)

Definition conv (fuel' : nat) (s : slot) : option value :=
  match s with
  | SVal (VLeaf t) => Some (VLeaf t)
  | SVal (VDict []) => Some (VDict [])
  | SVal (VDict _) => None
  | SGroup g => unflatten fuel' g
  end.

Definition pass2 (fuel' : nat) : list (nat * slot) -> option (list (nat * value)) :=
  fix go (l : list (nat * slot)) : option (list (nat * value)) :=
    match l with
    | [] => Some []
    | (k, s) :: r =>
        match conv fuel' s, go r with
        | Some x, Some r' => Some ((k, x) :: r')
        | _, _ => None
        end
    end.

Lemma pass2_nil (fuel' : nat) : pass2 fuel' [] = Some [].
Proof. reflexivity. Qed.

Lemma pass2_cons (fuel' : nat) (k : nat) (s : slot) (r : list (nat * slot)) :
  pass2 fuel' ((k, s) :: r) =
  match conv fuel' s, pass2 fuel' r with
  | Some x, Some r' => Some ((k, x) :: r')
  | _, _ => None
  end.
Proof. reflexivity. Qed.

Lemma unflatten_S (n : nat) (f : flatmap) :
  unflatten (S n) f =
  match uf_pass1 f [] with
  | P1Return v => Some v
  | P1Error => None
  | P1Nested nested => option_map VDict (pass2 n nested)
  end.
Proof. reflexivity. Qed.

Lemma uf_pass1_nil (n : list (nat * slot)) : uf_pass1 [] n = P1Nested n.
Proof. reflexivity. Qed.

Lemma uf_pass1_root (v : value) (r : flatmap) (n : list (nat * slot)) :
  uf_pass1 (([], v) :: r) n = P1Return v.
Proof. reflexivity. Qed.

Lemma uf_pass1_single (k : nat) (v : value) (r : flatmap) (n : list (nat * slot)) :
  uf_pass1 (([k], v) :: r) n = uf_pass1 r (aset Nat.eqb n k (SVal v)).
Proof. reflexivity. Qed.

Lemma uf_pass1_deep (k a : nat) (s : path) (v : value) (r : flatmap) (n : list (nat * slot)) :
  uf_pass1 ((k :: a :: s, v) :: r) n =
  match aget Nat.eqb n k with
  | None => uf_pass1 r (aset Nat.eqb n k (SGroup [(a :: s, v)]))
  | Some (SGroup g) => uf_pass1 r (aset Nat.eqb n k (SGroup (aset path_eqb g (a :: s) v)))
  | Some (SVal (VDict [])) => uf_pass1 r (aset Nat.eqb n k (SGroup [(a :: s, v)]))
  | Some (SVal _) => P1Error
  end.
Proof. reflexivity. Qed.

Lemma uf_pass1_app (f1 f2 : flatmap) (n : list (nat * slot)) :
  uf_pass1 (f1 ++ f2) n =
  match uf_pass1 f1 n with
  | P1Nested n' => uf_pass1 f2 n'
  | P1Return v => P1Return v
  | P1Error => P1Error
  end.
Proof.
  revert n. induction f1 as [|[p x] f1 IH]; intros n; [reflexivity|].
  cbn [app].
  destruct p as [|k [|a s]].
  - reflexivity.
  - rewrite !uf_pass1_single. apply IH.
  - rewrite !uf_pass1_deep.
    destruct (aget Nat.eqb n k) as [[[t|[|kv kvs]]|g]|]; try reflexivity; apply IH.
Qed.

Definition good (f : flatmap) : Prop :=
  knodup f /\
  (forall p x, In (p, x) f -> p <> []) /\
  (forall k x s y, In ([k], x) f -> In (k :: s, y) f -> s = []).

Lemma NoDup_app_l {A : Type} (l1 l2 : list A) : NoDup (l1 ++ l2) -> NoDup l1.
Proof.
  induction l1 as [|a l1 IH]; cbn [app]; intros H; [constructor|].
  inversion H as [|x l Hnotin Hnd]; subst.
  constructor; [|apply IH; exact Hnd].
  intros Hin. apply Hnotin. apply in_or_app. left. exact Hin.
Qed.

Lemma good_app_l (f1 f2 : flatmap) : good (f1 ++ f2) -> good f1.
Proof.
  intros [Hnd [Hne Hpf]]. split; [|split].
  - unfold knodup in *. rewrite map_app in Hnd. apply NoDup_app_l in Hnd. exact Hnd.
  - intros p x Hin. apply (Hne p x). apply in_or_app. left. exact Hin.
  - intros k x s y H1 H2. apply (Hpf k x s y); apply in_or_app; left; assumption.
Qed.

Definition slot_inv (f : flatmap) (k : nat) (o : option slot) : Prop :=
  match o with
  | None => forall s, pget f (k :: s) = None
  | Some (SVal x) => forall s, pget f (k :: s) = match s with [] => Some x | _ => None end
  | Some (SGroup g) => g <> [] /\ knodup g /\ forall s, pget g s = pget f (k :: s)
  end.

Definition p1inv (f : flatmap) (n : list (nat * slot)) : Prop :=
  NoDup (map fst n) /\ forall k, slot_inv f k (aget Nat.eqb n k).

Lemma slot_inv_ext (f f' : flatmap) (k : nat) (o : option slot) :
  (forall s, pget f' (k :: s) = pget f (k :: s)) -> slot_inv f k o -> slot_inv f' k o.
Proof.
  intros Hext. destruct o as [[x|g]|]; simpl.
  - intros H s. rewrite Hext. apply H.
  - intros [H1 [H2 H3]]. split; [exact H1|]. split; [exact H2|].
    intros s. rewrite Hext. apply H3.
  - intros H s. rewrite Hext. apply H.
Qed.

Lemma pget_snoc (f : flatmap) (q : path) (x : value) (p : path) :
  pget (f ++ [(q, x)]) p =
  match pget f p with Some y => Some y | None => if path_eqb q p then Some x else None end.
Proof. unfold pget. rewrite aget_app. reflexivity. Qed.

Lemma path_eqb_cons (a b : nat) (p q : path) :
  path_eqb (a :: p) (b :: q) = Nat.eqb a b && path_eqb p q.
Proof. reflexivity. Qed.

Lemma pass1_step (f : flatmap) (k : nat) (s : path) (x : value) (n : list (nat * slot)) :
  good (f ++ [(k :: s, x)]) -> p1inv f n ->
  exists n', uf_pass1 [(k :: s, x)] n = P1Nested n' /\ p1inv (f ++ [(k :: s, x)]) n'.
Proof.
  intros [Hnd [Hne Hpf]] [Hn Hinv].
  assert (Hfresh : pget f (k :: s) = None).
  { unfold pget. apply (aget_notin path_eqb path_eqb_spec).
    unfold knodup in Hnd. rewrite map_app in Hnd. cbn [map fst] in Hnd.
    apply NoDup_remove_2 in Hnd. rewrite app_nil_r in Hnd. exact Hnd. }
  assert (Hlast : In (k :: s, x) (f ++ [(k :: s, x)])).
  { apply in_or_app. right. left. reflexivity. }
  assert (Hinf : forall q y, pget f q = Some y -> In (q, y) (f ++ [(k :: s, x)])).
  { intros q y Hq. apply in_or_app. left.
    apply (aget_In path_eqb path_eqb_spec). exact Hq. }
  (* slots of other keys are unaffected *)
  assert (Hother : forall (sl : slot) k',
             slot_inv (f ++ [(k :: s, x)]) k (Some sl) ->
             slot_inv (f ++ [(k :: s, x)]) k' (aget Nat.eqb (aset Nat.eqb n k sl) k')).
  { intros sl k' Hk.
    rewrite (aget_aset Nat.eqb nat_eqb_spec).
    destruct (Nat.eqb k k') eqn:E.
    - apply Nat.eqb_eq in E. subst k'. exact Hk.
    - apply (slot_inv_ext f); [|apply Hinv].
      intros s'. rewrite pget_snoc. rewrite path_eqb_cons, E. cbn [andb].
      destruct (pget f (k' :: s')); reflexivity. }
  destruct s as [|a s].
  - (* a value directly under k *)
    exists (aset Nat.eqb n k (SVal x)). split; [reflexivity|].
    split; [apply (aset_nodup Nat.eqb nat_eqb_spec); exact Hn|].
    intros k'. apply Hother.
    intros s'. rewrite pget_snoc.
    assert (Hnone : pget f (k :: s') = None).
    { destruct (pget f (k :: s')) as [y|] eqn:Ey; [|reflexivity].
      assert (Hs' : s' = []) by (apply (Hpf k x s' y); [exact Hlast | apply Hinf; exact Ey]).
      subst s'. rewrite Hfresh in Ey. discriminate Ey. }
    rewrite Hnone. rewrite path_eqb_cons, Nat.eqb_refl. cbn [andb].
    destruct s'; reflexivity.
  - (* a deeper path under k *)
    rewrite uf_pass1_deep.
    pose proof (Hinv k) as Hk.
    destruct (aget Nat.eqb n k) as [[y|g]|] eqn:Ek.
    + (* a plain value is already stored under k: impossible *)
      exfalso. cbn [slot_inv] in Hk. specialize (Hk []). cbn in Hk.
      assert (Habs : a :: s = []) by (apply (Hpf k y (a :: s) x); [apply Hinf; exact Hk | exact Hlast]).
      discriminate Habs.
    + exists (aset Nat.eqb n k (SGroup (aset path_eqb g (a :: s) x))). split; [reflexivity|].
      split; [apply (aset_nodup Nat.eqb nat_eqb_spec); exact Hn|].
      intros k'. apply Hother.
      cbn [slot_inv] in Hk. destruct Hk as [Hg1 [Hg2 Hg3]].
      cbn [slot_inv]. split; [apply aset_nonempty|].
      split; [apply (aset_nodup path_eqb path_eqb_spec); exact Hg2|].
      intros s'. unfold pget at 1. rewrite (aget_aset path_eqb path_eqb_spec).
      rewrite pget_snoc, path_eqb_cons, Nat.eqb_refl. cbn [andb].
      destruct (path_eqb (a :: s) s') eqn:E.
      * apply path_eqb_spec in E. subst s'. rewrite Hfresh. reflexivity.
      * fold (pget g s'). rewrite Hg3. destruct (pget f (k :: s')); reflexivity.
    + exists (aset Nat.eqb n k (SGroup [(a :: s, x)])). split; [reflexivity|].
      split; [apply (aset_nodup Nat.eqb nat_eqb_spec); exact Hn|].
      intros k'. apply Hother.
      cbn [slot_inv] in Hk.
      cbn [slot_inv]. split; [discriminate|].
      split; [unfold knodup; cbn [map fst]; constructor; [intros H; exact H | constructor]|].
      intros s'. rewrite pget_snoc, path_eqb_cons, Nat.eqb_refl, Hk. cbn [andb].
      unfold pget. cbn [aget]. reflexivity.
Qed.

Lemma pass1_spec (f : flatmap) :
  good f -> exists n, uf_pass1 f [] = P1Nested n /\ p1inv f n.
Proof.
  induction f as [|[p x] f IH] using rev_ind; intros Hgood.
  - exists []. split; [reflexivity|]. split; [constructor|].
    intros k. cbn [aget slot_inv]. intros s. reflexivity.
  - destruct (IH (good_app_l _ _ Hgood)) as [n [Hn Hinv]].
    destruct p as [|k s].
    + exfalso. destruct Hgood as [_ [Hne _]]. apply (Hne [] x); [|reflexivity].
      apply in_or_app. right. left. reflexivity.
    + destruct (pass1_step f k s x n Hgood Hinv) as [n' [Hn' Hinv']].
      exists n'. split; [|exact Hinv'].
      rewrite uf_pass1_app, Hn. exact Hn'.
Qed.

Lemma pass2_spec (fuel' : nat) (R : nat -> value -> Prop) (n : list (nat * slot)) :
  (forall k sl, In (k, sl) n -> exists u, conv fuel' sl = Some u /\ R k u) ->
  exists res, pass2 fuel' n = Some res /\ map fst res = map fst n /\
              (forall k u, In (k, u) res -> R k u).
Proof.
  induction n as [|[k sl] n IH]; intros H.
  - exists []. split; [reflexivity|]. split; [reflexivity|]. intros k u [].
  - destruct (H k sl (or_introl eq_refl)) as [u [Hu HR]].
    destruct IH as [res [Hres [Hkeys HRres]]].
    { intros k' sl' Hin. apply H. right. exact Hin. }
    exists ((k, u) :: res). rewrite pass2_cons, Hu, Hres.
    split; [reflexivity|]. split; [cbn [map fst]; rewrite Hkeys; reflexivity|].
    intros k' u' [Heq|Hin].
    + inversion Heq; subst. exact HR.
    + apply HRres. exact Hin.
Qed.

Lemma lookup_inhabited : forall v : value, exists p x, lookup v p = Some x.
Proof.
  induction v as [t|kvs IHkvs] using value_ind'.
  - exists [], (VLeaf t). reflexivity.
  - destruct kvs as [|[k c] kvs].
    + exists [], (VDict []). reflexivity.
    + inversion IHkvs as [|a l Hc Hrest]; subst. cbn [snd] in Hc.
      destruct Hc as [p [x Hpx]].
      exists (k :: p), x. rewrite lookup_cons. cbn [aget]. rewrite Nat.eqb_refl. exact Hpx.
Qed.

Lemma lookup_nil_some (c x : value) : lookup c [] = Some x -> c = x /\ leaflike x.
Proof.
  destruct c as [t|[|kv kvs]]; cbn; intros H; inversion H; subst.
  - split; [reflexivity|]. left. exists t. reflexivity.
  - split; [reflexivity|]. right. reflexivity.
Qed.

Lemma conv_leaflike (fuel' : nat) (x : value) : leaflike x -> conv fuel' (SVal x) = Some x.
Proof. intros [[t Ht]|Ht]; subst x; reflexivity. Qed.

Lemma flat_fuel_bound (f : flatmap) (p : path) (x : value) :
  In (p, x) f -> length p < flat_fuel f.
Proof.
  unfold flat_fuel. induction f as [|[q y] f IH]; cbn [In fold_right fst]; intros H.
  - contradiction.
  - destruct H as [H|H].
    + inversion H; subst. lia.
    + specialize (IH H). lia.
Qed.

Lemma unflatten_spec :
  forall fuel f v,
    wf v = true ->
    (forall p, pget f p = lookup v p) ->
    knodup f ->
    (forall p x, In (p, x) f -> length p < fuel) ->
    exists u, unflatten fuel f = Some u /\ forall p, lookup u p = lookup v p.
Proof.
  induction fuel as [|fuel IH]; intros f v Hwf Hget Hnd Hlen.
  - exfalso. destruct f as [|[p x] f].
    + destruct (lookup_inhabited v) as [p [x Hpx]].
      rewrite <- Hget in Hpx. discriminate Hpx.
    + specialize (Hlen p x (or_introl eq_refl)). lia.
  - assert (Hin_get : forall p x, In (p, x) f -> lookup v p = Some x).
    { intros p x Hin. rewrite <- Hget. apply (In_aget path_eqb path_eqb_spec); assumption. }
    destruct (lookup v []) as [x0|] eqn:Hroot.
    + (* v is a leaf or the empty dict *)
      apply lookup_nil_some in Hroot. destruct Hroot as [Heq Hleaf]. subst x0.
      destruct f as [|[p x] f].
      * specialize (Hget []). rewrite (lookup_leaflike v [] Hleaf) in Hget. discriminate Hget.
      * pose proof (Hin_get p x (or_introl eq_refl)) as Hpx.
        rewrite (lookup_leaflike v p Hleaf) in Hpx.
        destruct p as [|a p]; [|discriminate Hpx].
        inversion Hpx; subst x.
        exists v. split; [|intros p; reflexivity].
        rewrite unflatten_S, uf_pass1_root. reflexivity.
    + (* v is a non-empty dict *)
      destruct v as [t|kvs]; [discriminate Hroot|].
      apply wf_dict in Hwf. destruct Hwf as [Hkeys Hchildren].
      assert (Hgood : good f).
      { split; [exact Hnd|]. split.
        - intros p x Hin Hp. subst p. rewrite (Hin_get [] x Hin) in Hroot. discriminate Hroot.
        - intros k x s y H1 H2.
          apply Hin_get in H1. apply Hin_get in H2.
          rewrite lookup_cons in H1, H2.
          destruct (aget Nat.eqb kvs k) as [c|]; [|discriminate H1].
          apply lookup_nil_some in H1. destruct H1 as [Hc Hleaf]. subst c.
          rewrite (lookup_leaflike x s Hleaf) in H2.
          destruct s; [reflexivity | discriminate H2]. }
      destruct (pass1_spec f Hgood) as [n [Hn [Hnnd Hinv]]].
      set (R := fun (k : nat) (u : value) => forall s, lookup u s = lookup (VDict kvs) (k :: s)).
      destruct (pass2_spec fuel R n) as [res [Hres [Hkeysres HR]]].
      { intros k sl Hin.
        pose proof (Hinv k) as Hk.
        rewrite (In_aget Nat.eqb nat_eqb_spec n k sl Hnnd Hin) in Hk.
        destruct sl as [x|g]; cbn [slot_inv] in Hk.
        - (* plain value *)
          pose proof (Hk []) as Hk0. cbn in Hk0. rewrite Hget, lookup_cons in Hk0.
          destruct (aget Nat.eqb kvs k) as [c|] eqn:Ec; [|discriminate Hk0].
          apply lookup_nil_some in Hk0. destruct Hk0 as [Hc Hleaf]. subst c.
          exists x. split; [apply conv_leaflike; exact Hleaf|].
          intros s. rewrite <- Hget, Hk. apply lookup_leaflike. exact Hleaf.
        - (* group *)
          destruct Hk as [Hg1 [Hg2 Hg3]].
          destruct g as [|[s0 y0] g']; [contradiction Hg1; reflexivity|].
          assert (Hs0 : lookup (VDict kvs) (k :: s0) = Some y0).
          { rewrite <- Hget, <- Hg3. unfold pget. cbn [aget]. rewrite path_eqb_refl. reflexivity. }
          rewrite lookup_cons in Hs0.
          destruct (aget Nat.eqb kvs k) as [c|] eqn:Ec; [|discriminate Hs0].
          assert (Hwfc : wf c = true).
          { apply (aget_In Nat.eqb nat_eqb_spec) in Ec.
            rewrite Forall_forall in Hchildren. apply (Hchildren (k, c) Ec). }
          destruct (IH ((s0, y0) :: g') c Hwfc) as [u [Hu Hlook]].
          + intros s. rewrite Hg3, Hget, lookup_cons, Ec. reflexivity.
          + exact Hg2.
          + intros s y Hin'.
            assert (Hsy : pget f (k :: s) = Some y).
            { rewrite <- Hg3. apply (In_aget path_eqb path_eqb_spec); assumption. }
            apply (aget_In path_eqb path_eqb_spec) in Hsy.
            specialize (Hlen _ _ Hsy). cbn [length] in Hlen. lia.
          + exists u. split; [exact Hu|].
            intros s. rewrite Hlook, lookup_cons, Ec. reflexivity. }
      exists (VDict res). split.
      * rewrite unflatten_S, Hn, Hres. reflexivity.
      * intros [|k s].
        -- (* root: both are non-empty dicts *)
           rewrite Hroot. destruct res as [|kv res]; [|reflexivity].
           exfalso. destruct n as [|kn n]; [|discriminate Hkeysres].
           destruct (lookup_inhabited (VDict kvs)) as [p [x Hpx]].
           destruct p as [|k s]; [rewrite Hroot in Hpx; discriminate Hpx|].
           pose proof (Hinv k) as Hk. cbn [aget slot_inv] in Hk.
           rewrite <- Hget, Hk in Hpx. discriminate Hpx.
        -- rewrite (lookup_cons res).
           destruct (aget Nat.eqb res k) as [u|] eqn:Eu.
           ++ apply (aget_In Nat.eqb nat_eqb_spec) in Eu. apply (HR k u Eu).
           ++ assert (Hnk : aget Nat.eqb n k = None).
              { apply (aget_notin Nat.eqb nat_eqb_spec). rewrite <- Hkeysres.
                intros Hin. apply (in_keys_aget Nat.eqb nat_eqb_spec) in Hin.
                destruct Hin as [u Hu]. rewrite Hu in Eu. discriminate Eu. }
              pose proof (Hinv k) as Hk. rewrite Hnk in Hk. cbn [slot_inv] in Hk.
              rewrite <- Hget, Hk. reflexivity.
Qed.

Theorem get_state_lookup :
  forall (f : flatmap) (v : value),
    wf v = true -> feq f (flatten v []) -> knodup f ->
    exists u, get_state f = Some u /\ (forall p, lookup u p = lookup v p).
Proof.
  intros f v Hwf Hfeq Hnd. unfold get_state.
  apply unflatten_spec.
  - exact Hwf.
  - intros p. unfold pget. rewrite (Hfeq p). apply flatten_lookup. exact Hwf.
  - exact Hnd.
  - intros p x Hin. apply (flat_fuel_bound f p x Hin).
Qed.

(* T5 *)
Corollary checkpoint_exact :
  forall states m base last,
    feq m base -> knodup m -> knodup base ->
    (forall s, In s states -> wf s = true) -> wf last = true ->
    exists u, get_state (fst (run_history m base (states ++ [last]))) = Some u /\
              forall p, lookup u p = lookup last p.
Proof.
  intros states m base last Hfeq Hm Hbase Hwfs Hlast.
  destruct (history_inv states m base last Hfeq Hm Hbase Hwfs Hlast) as [Hf Hn].
  apply get_state_lookup; assumption.
Qed.

(* ------------------------------------------------------------------ *)
(* T6: unflatten inverts flatten exactly (order included)               *)

Section AssocFresh.
  Context {K V : Type} (keq : K -> K -> bool).
  Hypothesis keq_spec : forall a b, keq a b = true <-> a = b.

  Lemma aset_fresh (d : list (K * V)) (k : K) (v : V) :
    ~ In k (map fst d) -> aset keq d k v = d ++ [(k, v)].
  Proof.
    induction d as [|[a b] d IH]; cbn [map fst In aset app]; intros Hn; [reflexivity|].
    rewrite (keq_neq_false keq keq_spec a k).
    - rewrite IH; [reflexivity|]. intros Hin. apply Hn. right. exact Hin.
    - intros Heq. apply Hn. left. exact Heq.
  Qed.

  Lemma aset_snoc_same (d : list (K * V)) (k : K) (v v' : V) :
    ~ In k (map fst d) -> aset keq (d ++ [(k, v)]) k v' = d ++ [(k, v')].
  Proof.
    induction d as [|[a b] d IH]; cbn [map fst In aset app]; intros Hn.
    - rewrite (keq_refl keq keq_spec). reflexivity.
    - rewrite (keq_neq_false keq keq_spec a k).
      + rewrite IH; [reflexivity|]. intros Hin. apply Hn. right. exact Hin.
      + intros Heq. apply Hn. left. exact Heq.
  Qed.

  Lemma aget_snoc_same (d : list (K * V)) (k : K) (v : V) :
    ~ In k (map fst d) -> aget keq (d ++ [(k, v)]) k = Some v.
  Proof.
    intros Hn. rewrite aget_app. rewrite (aget_notin keq keq_spec d k Hn).
    cbn [aget]. rewrite (keq_refl keq keq_spec). reflexivity.
  Qed.

  Lemma aupdate_fresh (e d : list (K * V)) :
    NoDup (map fst e) ->
    (forall k, In k (map fst e) -> ~ In k (map fst d)) ->
    aupdate keq d e = d ++ e.
  Proof.
    unfold aupdate. revert d.
    induction e as [|[a b] e IH]; intros d Hnd Hdisj; cbn [fold_left fst snd].
    - rewrite app_nil_r. reflexivity.
    - cbn [map fst] in Hnd, Hdisj. inversion Hnd as [|x l Hnotin Hnd']; subst.
      rewrite aset_fresh; [|apply Hdisj; left; reflexivity].
      rewrite IH.
      + rewrite <- app_assoc. reflexivity.
      + exact Hnd'.
      + intros k Hk Hin. rewrite map_app in Hin. apply in_app_or in Hin.
        destruct Hin as [Hin|Hin].
        * apply (Hdisj k); [right; exact Hk | exact Hin].
        * cbn in Hin. destruct Hin as [Hin|[]]. subst a. contradiction.
  Qed.
End AssocFresh.

Definition pcons (k : nat) (e : path * value) : path * value := (k :: fst e, snd e).
Definition pre (lin : path) (e : path * value) : path * value := (lin ++ fst e, snd e).

Lemma pcons_pair (k : nat) (p : path) (y : value) : pcons k (p, y) = (k :: p, y).
Proof. reflexivity. Qed.

Definition fcat (lin : path) (l : list (nat * value)) : flatmap :=
  flat_map (fun kv => flatten (snd kv) (lin ++ [fst kv])) l.

Definition fcat0 (l : list (nat * value)) : flatmap :=
  flat_map (fun kv => map (pcons (fst kv)) (flatten (snd kv) [])) l.

Lemma flatten_key_strip (x : value) (lin : path) (k : nat) (p : path) :
  wf x = true -> In p (map fst (flatten x (lin ++ [k]))) ->
  exists q, strip lin p = Some (k :: q).
Proof.
  intros Hwf Hin. apply (in_keys_aget path_eqb path_eqb_spec) in Hin.
  destruct Hin as [y Hy]. rewrite (flatten_get_gen x Hwf) in Hy.
  rewrite strip_snoc in Hy.
  destruct (strip lin p) as [[|k0 q]|]; try discriminate Hy.
  destruct (Nat.eqb k k0) eqn:E; [|discriminate Hy].
  apply Nat.eqb_eq in E. subst k0. exists q. reflexivity.
Qed.

Lemma fgo_cat (lin : path) :
  forall l acc,
    keys_nodup (map fst l) = true ->
    Forall (fun kv => wf (snd kv) = true) l ->
    (forall p k0 q, In p (map fst acc) -> strip lin p = Some (k0 :: q) -> ~ In k0 (map fst l)) ->
    fgo lin l acc = acc ++ fcat lin l.
Proof.
  induction l as [|[k x] l IH]; intros acc Hk Hw Hacc.
  - rewrite fgo_nil. cbn. rewrite app_nil_r. reflexivity.
  - rewrite fgo_cons.
    cbn [map fst] in Hk. apply keys_nodup_cons in Hk. destruct Hk as [Hk1 Hk2].
    inversion Hw as [|a1 l1 Hw1 Hw2]; subst. cbn [snd] in Hw1.
    rewrite (aupdate_fresh path_eqb path_eqb_spec).
    + rewrite IH.
      * unfold fcat. cbn [flat_map fst snd]. rewrite <- app_assoc. reflexivity.
      * exact Hk2.
      * exact Hw2.
      * intros p k0 q Hin Hs. rewrite map_app in Hin. apply in_app_or in Hin.
        destruct Hin as [Hin|Hin].
        -- intros Hin0. apply (Hacc p k0 q Hin Hs). right. exact Hin0.
        -- destruct (flatten_key_strip x lin k p Hw1 Hin) as [q' Hq'].
           rewrite Hq' in Hs. inversion Hs; subst. exact Hk1.
    + apply flatten_knodup_gen.
    + intros p Hin Hin'.
      destruct (flatten_key_strip x lin k p Hw1 Hin) as [q' Hq'].
      apply (Hacc p k q' Hin' Hq'). left. reflexivity.
Qed.

Lemma flatten_dict_fcat (kv : nat * value) (kvs : list (nat * value)) (lin : path) :
  wf (VDict (kv :: kvs)) = true ->
  flatten (VDict (kv :: kvs)) lin = fcat lin (kv :: kvs).
Proof.
  intros Hwf. apply wf_dict in Hwf. destruct Hwf as [Hk Hw].
  rewrite flatten_dict. rewrite (fgo_cat lin _ [] Hk Hw); [reflexivity|].
  intros p k0 q [].
Qed.

Lemma flatten_prefix (v : value) :
  wf v = true -> forall lin, flatten v lin = map (pre lin) (flatten v []).
Proof.
  induction v as [t|kvs IHkvs] using value_ind'; intros Hwf lin.
  - cbn. unfold pre. cbn. rewrite app_nil_r. reflexivity.
  - destruct kvs as [|kv kvs].
    + cbn. unfold pre. cbn. rewrite app_nil_r. reflexivity.
    + rewrite !(flatten_dict_fcat kv kvs) by exact Hwf.
      apply wf_dict in Hwf. destruct Hwf as [_ Hw].
      revert Hw IHkvs. generalize (kv :: kvs). intros l.
      induction l as [|[k x] l IHl]; intros Hw Hih; [reflexivity|].
      inversion Hw as [|a1 l1 Hw1 Hw2]; subst.
      inversion Hih as [|a2 l2 Hih1 Hih2]; subst.
      cbn [snd] in Hw1, Hih1.
      unfold fcat in *. cbn [flat_map fst snd]. rewrite map_app.
      rewrite (IHl Hw2 Hih2). f_equal.
      rewrite (Hih1 Hw1 (lin ++ [k])). rewrite (Hih1 Hw1 ([] ++ [k])).
      rewrite map_map. apply map_ext. intros [q y]. unfold pre. cbn [fst snd app].
      rewrite <- app_assoc. reflexivity.
Qed.

Lemma flatten_dict_fcat0 (kv : nat * value) (kvs : list (nat * value)) :
  wf (VDict (kv :: kvs)) = true ->
  flatten (VDict (kv :: kvs)) [] = fcat0 (kv :: kvs).
Proof.
  intros Hwf. rewrite (flatten_dict_fcat kv kvs [] Hwf).
  apply wf_dict in Hwf. destruct Hwf as [_ Hw].
  revert Hw. generalize (kv :: kvs). intros l.
  induction l as [|[k x] l IHl]; intros Hw; [reflexivity|].
  inversion Hw as [|a1 l1 Hw1 Hw2]; subst. cbn [snd] in Hw1.
  unfold fcat, fcat0 in *. cbn [flat_map fst snd]. rewrite (IHl Hw2). f_equal.
  rewrite (flatten_prefix x Hw1 ([] ++ [k])). reflexivity.
Qed.

Lemma block_go (k : nat) (r : flatmap) (n : list (nat * slot)) :
  ~ In k (map fst n) ->
  forall g2 g1,
    knodup (g1 ++ g2) -> (forall p y, In (p, y) g2 -> p <> []) ->
    uf_pass1 (map (pcons k) g2 ++ r) (n ++ [(k, SGroup g1)]) =
    uf_pass1 r (n ++ [(k, SGroup (g1 ++ g2))]).
Proof.
  intros Hk. induction g2 as [|[p y] g2 IH]; intros g1 Hnd Hne.
  - cbn [map app]. rewrite app_nil_r. reflexivity.
  - destruct p as [|a s].
    { exfalso. apply (Hne [] y); [left; reflexivity | reflexivity]. }
    cbn [map app]. rewrite pcons_pair, uf_pass1_deep.
    rewrite (aget_snoc_same Nat.eqb nat_eqb_spec n k _ Hk).
    rewrite (aset_snoc_same Nat.eqb nat_eqb_spec n k _ _ Hk).
    assert (Hfresh : ~ In (a :: s) (map fst g1)).
    { unfold knodup in Hnd. rewrite map_app in Hnd. cbn [map fst] in Hnd.
      apply NoDup_remove_2 in Hnd. intros Hin. apply Hnd. apply in_or_app. left. exact Hin. }
    rewrite (aset_fresh path_eqb path_eqb_spec g1 (a :: s) y Hfresh).
    etransitivity.
    { apply IH.
      - rewrite <- app_assoc. exact Hnd.
      - intros p' y' Hin. apply (Hne p' y'). right. exact Hin. }
    rewrite <- app_assoc. reflexivity.
Qed.

Lemma pass1_block (k : nat) (r : flatmap) (n : list (nat * slot)) (g : flatmap) :
  ~ In k (map fst n) -> g <> [] -> knodup g -> (forall p y, In (p, y) g -> p <> []) ->
  uf_pass1 (map (pcons k) g ++ r) n = uf_pass1 r (n ++ [(k, SGroup g)]).
Proof.
  intros Hk Hne Hnd Hpaths.
  destruct g as [|[p y] g]; [contradiction Hne; reflexivity|].
  destruct p as [|a s].
  { exfalso. apply (Hpaths [] y); [left; reflexivity | reflexivity]. }
  cbn [map app]. rewrite pcons_pair, uf_pass1_deep.
  rewrite (aget_notin Nat.eqb nat_eqb_spec n k Hk).
  rewrite (aset_fresh Nat.eqb nat_eqb_spec n k _ Hk).
  apply (block_go k r n Hk g [(a :: s, y)]).
  - exact Hnd.
  - intros p' y' Hin. apply (Hpaths p' y'). right. exact Hin.
Qed.

Definition slot_of (x : value) : slot :=
  match x with
  | VLeaf _ => SVal x
  | VDict [] => SVal x
  | VDict _ => SGroup (flatten x [])
  end.

Lemma pass1_fcat0 :
  forall l n,
    keys_nodup (map fst l) = true ->
    Forall (fun kv => wf (snd kv) = true) l ->
    (forall k, In k (map fst l) -> ~ In k (map fst n)) ->
    uf_pass1 (fcat0 l) n = P1Nested (n ++ map (fun kv => (fst kv, slot_of (snd kv))) l).
Proof.
  induction l as [|[k x] l IH]; intros n Hk Hw Hdisj.
  - cbn. rewrite app_nil_r. reflexivity.
  - cbn [map fst] in Hk. apply keys_nodup_cons in Hk. destruct Hk as [Hk1 Hk2].
    inversion Hw as [|a1 l1 Hw1 Hw2]; subst. cbn [snd] in Hw1.
    assert (Hkn : ~ In k (map fst n)) by (apply Hdisj; left; reflexivity).
    assert (Hdisj' : forall sl k', In k' (map fst l) -> ~ In k' (map fst (n ++ [(k, sl)]))).
    { intros sl k' Hin' Hin. rewrite map_app in Hin. apply in_app_or in Hin.
      destruct Hin as [Hin|Hin].
      - apply (Hdisj k'); [right; exact Hin' | exact Hin].
      - cbn in Hin. destruct Hin as [Hin|[]]. subst k'. contradiction. }
    unfold fcat0. cbn [flat_map fst snd map]. fold (fcat0 l).
    destruct x as [t|[|kv kvs]].
    + cbn [flatten map app]. rewrite pcons_pair, uf_pass1_single.
      rewrite (aset_fresh Nat.eqb nat_eqb_spec n k _ Hkn).
      rewrite (IH _ Hk2 Hw2 (Hdisj' _)). rewrite <- app_assoc. reflexivity.
    + cbn [flatten map app]. rewrite pcons_pair, uf_pass1_single.
      rewrite (aset_fresh Nat.eqb nat_eqb_spec n k _ Hkn).
      rewrite (IH _ Hk2 Hw2 (Hdisj' _)). rewrite <- app_assoc. reflexivity.
    + set (x := VDict (kv :: kvs)) in *.
      rewrite (pass1_block k (fcat0 l) n (flatten x [])).
      * rewrite (IH _ Hk2 Hw2 (Hdisj' _)). rewrite <- app_assoc. reflexivity.
      * exact Hkn.
      * destruct (lookup_inhabited x) as [p [y Hpy]].
        rewrite <- (flatten_lookup x Hw1) in Hpy.
        intros Hnil. rewrite Hnil in Hpy. discriminate Hpy.
      * apply flatten_knodup_gen.
      * intros p y Hin Hp. subst p.
        apply (In_aget path_eqb path_eqb_spec _ _ _ (flatten_knodup_gen x [])) in Hin.
        rewrite (flatten_lookup x Hw1) in Hin. discriminate Hin.
Qed.

Lemma pass2_slots (fuel' : nat) (l : list (nat * value)) :
  Forall (fun kv => conv fuel' (slot_of (snd kv)) = Some (snd kv)) l ->
  pass2 fuel' (map (fun kv => (fst kv, slot_of (snd kv))) l) = Some l.
Proof.
  induction l as [|[k x] l IH]; intros H; [reflexivity|].
  inversion H as [|a1 l1 H1 H2]; subst. cbn [snd] in H1.
  cbn [map fst snd]. rewrite pass2_cons, H1, (IH H2). reflexivity.
Qed.

Lemma unflatten_flatten_gen (v : value) :
  wf v = true ->
  forall fuel, (forall p y, In (p, y) (flatten v []) -> length p < fuel) ->
               unflatten fuel (flatten v []) = Some v.
Proof.
  induction v as [t|kvs IHkvs] using value_ind'; intros Hwf fuel Hlen.
  - destruct fuel as [|fuel]; [|reflexivity].
    specialize (Hlen [] (VLeaf t) (or_introl eq_refl)). cbn in Hlen. lia.
  - destruct kvs as [|kv kvs].
    + destruct fuel as [|fuel]; [|reflexivity].
      specialize (Hlen [] (VDict []) (or_introl eq_refl)). cbn in Hlen. lia.
    + assert (Hfuel : exists fuel', fuel = S fuel').
      { destruct (lookup_inhabited (VDict (kv :: kvs))) as [p [y Hpy]].
        rewrite <- (flatten_lookup _ Hwf) in Hpy.
        apply (aget_In path_eqb path_eqb_spec) in Hpy.
        specialize (Hlen _ _ Hpy).
        destruct fuel as [|fuel']; [lia | exists fuel'; reflexivity]. }
      destruct Hfuel as [fuel' Hfuel]. subst fuel.
      rewrite (flatten_dict_fcat0 kv kvs Hwf) in *.
      apply wf_dict in Hwf. destruct Hwf as [Hk Hw].
      revert Hk Hw IHkvs Hlen. generalize (kv :: kvs). intros l Hk Hw Hih Hlen.
      assert (Hchild : forall k x p y, In (k, x) l -> In (p, y) (flatten x []) ->
                                       In (k :: p, y) (fcat0 l)).
      { intros k x p y Hkx Hpy. unfold fcat0. apply in_flat_map.
        exists (k, x). split; [exact Hkx|]. cbn [fst snd].
        apply (in_map (pcons k)) in Hpy. exact Hpy. }
      rewrite unflatten_S. rewrite (pass1_fcat0 l [] Hk Hw) by (intros k _ []).
      cbn [app]. rewrite pass2_slots; [reflexivity|].
      rewrite Forall_forall. intros [k x] Hin. cbn [snd].
      rewrite Forall_forall in Hw, Hih.
      pose proof (Hw _ Hin) as Hwx. pose proof (Hih _ Hin) as Hihx. cbn [snd] in Hwx, Hihx.
      destruct x as [t|[|kv' kvs']]; try reflexivity.
      cbn [slot_of conv]. apply (Hihx Hwx).
      intros p y Hpy. specialize (Hlen _ _ (Hchild _ _ _ _ Hin Hpy)). cbn [length] in Hlen. lia.
Qed.

Theorem unflatten_flatten : forall v, wf v = true -> get_state (flatten v []) = Some v.
Proof.
  intros v Hwf. unfold get_state. apply (unflatten_flatten_gen v Hwf).
  intros p y Hin. apply (flat_fuel_bound _ p y Hin).
Qed.

(* ------------------------------------------------------------------ *)
Print Assumptions delta_exact.
Print Assumptions history_exact.
Print Assumptions flatten_lookup.
Print Assumptions flatten_knodup.
Print Assumptions get_state_lookup.
Print Assumptions checkpoint_exact.
Print Assumptions unflatten_flatten.
