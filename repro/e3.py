import torch, time, threading, os, signal, sys
from torchdata.nodes import *
class Bad(BaseNode):
    def __init__(s,n,bad): super().__init__(); s.n=n; s.bad=bad
    def reset(s, st=None): super().reset(st); s.i = 0 if st is None else st["i"]
    def next(s):
        if s.i==s.n: raise StopIteration
        s.i+=1
        if s.i-1==s.bad: raise ValueError("boom")
        return s.i-1
    def get_state(s): return {"i": s.i}
def timed_next(node, timeout=5):
    res=[]
    def f():
        try: res.append(("item", next(node)))
        except StopIteration: res.append(("stop",))
        except Exception as e: res.append(("err", type(e).__name__))
    t=threading.Thread(target=f, daemon=True); t.start(); t.join(timeout)
    return res[0] if res else ("HANG",)
which=sys.argv[1]
if which=="pm":
    node = ParallelMapper(Bad(5,2), lambda x:x, num_workers=2)
    print([timed_next(node) for _ in range(5)])
if which=="pf":
    node = Prefetcher(Bad(5,2), 2)
    print([timed_next(node) for _ in range(5)])
if which=="m":
    node = Mapper(Bad(5,2), lambda x:x)
    print([timed_next(node) for _ in range(7)])
if which=="proc":
    def f(x):
        if x==2: os.kill(os.getpid(), signal.SIGKILL)
        return x
    node = ParallelMapper(Bad(8,100), f, num_workers=2, method="process")
    print([timed_next(node, 8) for _ in range(5)])
