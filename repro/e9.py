import torch, torch.utils.data, sys
from torchdata.stateful_dataloader import StatefulDataLoader
import logging; logging.disable(logging.WARNING)
import warnings; warnings.filterwarnings("ignore")
class IterDSPlain(torch.utils.data.IterableDataset):
    def __init__(s, sizes): s.sizes=sizes
    def __iter__(s):
        wi=torch.utils.data.get_worker_info(); w=wi.id if wi else 0
        n=s.sizes[w] if wi else sum(s.sizes)
        for i in range(n): yield w*100+i
for nw in [0,2]:
    mk=lambda: StatefulDataLoader(IterDSPlain([10,10]), batch_size=1, num_workers=nw)
    ref=[b.tolist() for b in mk()]
    dl=mk(); it=iter(dl); [next(it) for _ in range(3)]; sd=dl.state_dict()
    dl2=mk(); dl2.load_state_dict(sd); it=iter(dl2); a=[next(it).tolist() for _ in range(2)]; sd2=dl2.state_dict()
    dl3=mk(); dl3.load_state_dict(sd2)
    try: rest=[b.tolist() for b in dl3]
    except Exception as e: rest="EXC %r"%e
    print(nw, "after 3 then 2 more; expected", ref[5:8], "got", rest if isinstance(rest,str) else rest[:3], "ok" if rest==ref[5:] else "FAIL")
