"""D17: ParallelMapper: a state_dict() taken after a map_fn error replays items that were already delivered.

items a, b(bad), c with snapshot_frequency=2: next -> f(a); next -> error for b; next -> f(c); state_dict(); resume.
The error did not count as a step, so the state denoted position 2 and the resumed node yielded c again.
Usage: python e21.py   (exit 1 = defect present)"""
from torchdata.nodes import IterableWrapper, ParallelMapper


def udf(x):
    if x == 1:
        raise ValueError("bad item")
    return x * 10


def mk():
    return ParallelMapper(IterableWrapper(range(6)), udf, num_workers=2, snapshot_frequency=2)


node = mk()
node.reset()
seen = [next(node)]
try:
    next(node)
except ValueError:
    seen.append("err")
seen.append(next(node))
sd = node.state_dict()
rest = list(node)
node2 = mk()
node2.reset(sd)
resumed = list(node2)
print("seen", seen, "state", sd, "uninterrupted rest", rest, "resumed", resumed)
ok = resumed == rest
print("PASS" if ok else "FAIL: resumed stream differs from the uninterrupted remainder")
raise SystemExit(0 if ok else 1)
