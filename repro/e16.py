# after a udf error the remaining items still flow (behaviour kept by the D5 fix)
from torchdata.nodes import *
def f(x):
    if x==2: raise ValueError("boom")
    return x
node = ParallelMapper(IterableWrapper(range(6)), f, num_workers=2)
out=[]
for _ in range(9):
    try: out.append(next(node))
    except StopIteration: out.append("stop")
    except Exception as e: out.append(type(e).__name__)
print(out)
