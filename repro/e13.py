import torch, torch.utils.data, multiprocessing, time, gc
from torchdata.stateful_dataloader import StatefulDataLoader
import logging; logging.disable(logging.WARNING)
import warnings; warnings.filterwarnings("ignore")
class MapDS(torch.utils.data.Dataset):
    def __len__(s): return 8
    def __getitem__(s,i): return i
def mk(nw): return StatefulDataLoader(MapDS(), batch_size=2, num_workers=nw)
for ws,wl in [(0,2),(2,0),(2,3),(3,2),(1,2)]:
    dl=mk(ws); it=iter(dl); next(it); sd=dl.state_dict(); del it, dl; gc.collect(); time.sleep(0.3)
    dl2=mk(wl); dl2.load_state_dict(sd)
    try:
        got=[b.tolist() for b in dl2]; res=("DATA",got)
    except BaseException as e: res=("EXC",type(e).__name__)
    t0=time.time(); n=len(multiprocessing.active_children())
    while n and time.time()-t0<6: time.sleep(0.1); n=len(multiprocessing.active_children())
    # usable after valid load?
    dlv=mk(wl); itv=iter(dlv); next(itv); sdv=dlv.state_dict(); del itv,dlv; gc.collect()
    dl2.load_state_dict(sdv)
    try: ok=[b.tolist() for b in dl2]
    except BaseException as e: ok="EXC "+type(e).__name__
    print((ws,wl),res,"children left after reject:",n,"after", round(time.time()-t0,1),"s; after valid load:",ok)
