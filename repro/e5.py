import torch, torch.utils.data, sys
from torchdata.stateful_dataloader import StatefulDataLoader
# C07: in-place mutated list in worker dataset state
class DS(torch.utils.data.IterableDataset):
    def __init__(s): s.buf=[]; s.i=0
    def __iter__(s):
        while s.i<8:
            s.i+=1; s.buf.append(s.i); yield s.i
    def state_dict(s): return {"i": s.i, "buf": s.buf}
    def load_state_dict(s, sd): s.i=sd["i"]; s.buf=sd["buf"]
dl=StatefulDataLoader(DS(), batch_size=1, num_workers=1)
it=iter(dl)
for k in range(4):
    next(it)
    sd=dl.state_dict()
    print(k, sd["_snapshot"]["_worker_snapshots"]["worker_0"]["dataset_state"])
