"""Scratch prototype: deterministic scheduler for torchdata.nodes threads (feasibility check for DESIGN §3.4)."""
import threading as _th, queue as _q, collections, random, types, time as _time

class Sched:
    def __init__(self, chooser):
        self.cv=_th.Condition(); self.threads={}; self.pending={}; self.granted=None; self.chooser=chooser
        self.trace=[]; self.clock=0.0; self.n=0
    def register(self, name):
        with self.cv: self.threads[name]="running"; self.cv.notify_all()
    def finish(self, name):
        with self.cv: self.threads[name]="done"; self.pending.pop(name,None); self.cv.notify_all()
    def point(self, name, op, enabled=lambda: True, can_timeout=False):
        """park until granted; returns 'go' or 'timeout'"""
        if self.threads.get(name) != "running":   # uncontrolled caller (e.g. __del__ from GC in the scheduler thread)
            return "go" if enabled() else "timeout"
        with self.cv:
            self.pending[name]=(op,enabled,can_timeout); self.threads[name]="parked"; self.cv.notify_all()
            while self.granted is None or self.granted[0]!=name: self.cv.wait()
            mode=self.granted[1]; self.granted=None; self.pending.pop(name); self.threads[name]="running"
            return mode
    def run_until(self, done_fn, max_steps=100000):
        while True:
            with self.cv:
                while any(s=="running" for s in self.threads.values()) or self.granted is not None: self.cv.wait()
                if done_fn(): return True
                moves=[]
                for name,(op,en,to) in sorted(self.pending.items()):
                    if en(): moves.append((name,"go"))
                    elif to: moves.append((name,"timeout"))
                if not moves: return False  # deadlock
                mv=self.chooser(moves); self.trace.append((mv, self.pending[mv[0]][0])); self.n+=1
                if mv[1]=="timeout": self.clock+=0.1
                self.threads[mv[0]]="running"; self.granted=mv; self.cv.notify_all()
            if self.n>max_steps: return False

S=None
def cur(): return _th.current_thread().name

class Thread:
    def __init__(self, target=None, args=(), name=None, daemon=None, kwargs=None):
        self.name=name or f"T{id(self)}"; self._target=target; self._args=args; self._done=False
        self._t=_th.Thread(target=self._run, name=self.name, daemon=True)
    def _run(self):
        S.point(self.name, "start")
        try: self._target(*self._args)
        finally:
            self._done=True; S.finish(self.name)
    def start(self):
        S.register(self.name); self._t.start()
    def is_alive(self): return not self._done
    def join(self, timeout=None):
        S.point(cur(), ("join",self.name), lambda: self._done, timeout is not None)
class Event:
    def __init__(self): self._f=False
    def is_set(self): S.point(cur(),"ev.is_set"); return self._f
    def set(self): S.point(cur(),"ev.set"); self._f=True
class BoundedSemaphore:
    def __init__(self, value=1): self._value=value; self._init=value
    def acquire(self, blocking=True, timeout=None):
        m=S.point(cur(),"sem.acquire", lambda: self._value>0, timeout is not None or not blocking)
        if m=="timeout": return False
        self._value-=1; return True
    def release(self):
        S.point(cur(),"sem.release")
        if self._value>=self._init: raise ValueError("Semaphore released too many times")
        self._value+=1
class Lock:
    def __enter__(self): return self
    def __exit__(self,*a): return False
Empty=_q.Empty
class Queue:
    def __init__(self, maxsize=0): self.queue=collections.deque()
    def put(self, x, block=True, timeout=None): S.point(cur(),"q.put"); self.queue.append(x)
    def get(self, block=True, timeout=None):
        m=S.point(cur(),"q.get", lambda: len(self.queue)>0, (timeout is not None) or not block)
        if m=="timeout": raise Empty
        return self.queue.popleft()
    def get_nowait(self): return self.queue.popleft()
    def empty(self): S.point(cur(),"q.empty"); return len(self.queue)==0
fake_threading=types.SimpleNamespace(Thread=Thread, Event=Event, BoundedSemaphore=BoundedSemaphore, Lock=Lock, current_thread=_th.current_thread)
fake_queue=types.SimpleNamespace(Queue=Queue, Empty=Empty)
class FakeTime:
    def sleep(self, s): S.point(cur(),"sleep")
    def time(self): return S.clock
fake_time=FakeTime()

def install():
    import torchdata.nodes.map as m, torchdata.nodes._populate_queue as pq, torchdata.nodes._apply_udf as au, torchdata.nodes.snapshot_store as ss
    m.threading=fake_threading; m.queue=fake_queue; m.time=fake_time
    pq.queue=fake_queue; pq.threading=fake_threading
    au.queue=fake_queue; au.threading=fake_threading
    ss.queue=fake_queue; ss.threading=fake_threading; ss.time=fake_time
    class FakeMpCtx:
        Event=Event; Queue=Queue
    m.mp=types.SimpleNamespace(Event=Event, Queue=Queue, get_context=lambda *_: FakeMpCtx, Process=None)
