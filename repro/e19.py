# D16?: batch_size=None with a stateful IterableDataset that resets its position at the end of __iter__ (README style)
import torch, torch.utils.data, sys
from torchdata.stateful_dataloader import StatefulDataLoader
import logging; logging.disable(logging.WARNING)
import warnings; warnings.filterwarnings("ignore")
class DS(torch.utils.data.IterableDataset):
    def __init__(s, sizes): s.sizes=sizes; s.i=0
    def __iter__(s):
        wi=torch.utils.data.get_worker_info(); w=wi.id if wi else 0
        n=s.sizes[w]
        while s.i<n:
            s.i+=1; yield w*100+s.i-1
        s.i=0
    def state_dict(s): return {"i":s.i}
    def load_state_dict(s,sd): s.i=sd["i"]
for bs in [None, 1]:
  for nw in [0, 2]:
    mk=lambda: StatefulDataLoader(DS([1,4]), batch_size=bs, num_workers=nw)
    ref=[(b if bs is None else b.tolist()) for b in mk()]
    bad=[]
    for k in range(len(ref)+1):
        dl=mk(); it=iter(dl); [next(it) for _ in range(k)]; sd=dl.state_dict()
        dl2=mk(); dl2.load_state_dict(sd); rest=[(b if bs is None else b.tolist()) for b in dl2]
        if rest!=ref[k:]: bad.append((k,rest,ref[k:]))
    print("bs",bs,"nw",nw,"ref",ref,"bad",bad)
