import torch, torch.utils.data, sys
from torchdata.stateful_dataloader import StatefulDataLoader
from torchdata.stateful_dataloader.sampler import StatefulDistributedSampler
from torchdata.nodes import *
import logging; logging.disable(logging.WARNING)
import warnings; warnings.filterwarnings("ignore")
class MapDS(torch.utils.data.Dataset):
    def __len__(s): return 6
    def __getitem__(s,i): return i
def mk(nw):
    ds=MapDS(); return StatefulDataLoader(ds, batch_size=2, num_workers=nw, sampler=StatefulDistributedSampler(ds, num_replicas=1, rank=0, shuffle=False))
for nw in [0,2]:
    dl=mk(nw); e1=[b.tolist() for b in dl]
    it=iter(dl)            # epoch 2 iterator, nothing consumed yet
    sd=dl.state_dict()
    e2=[b.tolist() for b in it]
    dl2=mk(nw); dl2.load_state_dict(sd)
    print("nw",nw,"epoch2 uninterrupted",e2,"resumed at k=0 of epoch2:",[b.tolist() for b in dl2])
# CYCLE_FOREVER with an empty source
n=MultiNodeWeightedSampler({"a":IterableWrapper([]),"b":IterableWrapper(range(3))},{"a":1.0,"b":1.0},stop_criteria=StopCriteria.CYCLE_FOREVER,seed=1)
out=[]
try:
    for _ in range(20): out.append(next(n))
    print("cycle_forever with empty source: 20 items ok", out)
except StopIteration: print("cycle_forever with empty source: StopIteration after", out)
