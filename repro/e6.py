import multiprocessing, multiprocessing.context as mpc, queue, sys, os, time
import torch, torch.utils.data
from torchdata.stateful_dataloader import StatefulDataLoader
from torchdata.stateful_dataloader.worker import _AckStartup

class SchedResultQueue:
    """Result queue whose arrival order is dictated by a schedule (per-worker FIFO preserved)."""
    def __init__(self, ctx, nworkers, chooser):
        self.qs=[multiprocessing.get_context("fork").Queue() for _ in range(nworkers)]
        self.chooser=chooser; self.pending=[0]*nworkers; self.log=[]
    # worker side
    def put(self, obj, *a, **k):
        if obj is None or obj==(None,None): return
        tag, payload = obj
        wid = payload.worker_id if isinstance(payload,_AckStartup) else payload[1]
        self.qs[wid].put(obj)
    # main side
    def get(self, timeout=None):
        cands=[w for w,p in enumerate(self.pending) if p>0]
        if not cands: raise queue.Empty
        w=self.chooser(cands)
        obj=self.qs[w].get(timeout=20)
        self.pending[w]-=1
        # a StopIteration result means later tasks to w are never answered
        self.log.append(w)
        return obj
    def cancel_join_thread(self):
        for q in self.qs: q.cancel_join_thread()
    def close(self):
        for q in self.qs: q.close()

class IndexQueue:
    def __init__(self, rq, wid):
        self.q=multiprocessing.get_context("fork").Queue(); self.rq=rq; self.wid=wid; self.dead=False
    def put(self, obj):
        if obj is not None and not self.rq.stopped[self.wid]: self.rq.pending[self.wid]+=1
        self.q.put(obj)
    def get(self, timeout=None): return self.q.get(timeout=timeout)
    def cancel_join_thread(self): self.q.cancel_join_thread()
    def close(self): self.q.close()

class Ctx(mpc.ForkContext):
    def __init__(self, nworkers, chooser):
        self.n=nworkers; self.chooser=chooser; self.rq=None; self.k=0
    def Queue(self, *a, **k):
        if self.rq is None:
            self.rq=SchedResultQueue(self,self.n,self.chooser); self.rq.stopped=[False]*self.n; return self.rq
        q=IndexQueue(self.rq,self.k); self.k+=1; return q

class DS(torch.utils.data.IterableDataset):
    def __init__(s, sizes): s.sizes=sizes
    def __iter__(s):
        wi=torch.utils.data.get_worker_info()
        for i in range(s.sizes[wi.id]): yield wi.id*100+i

import random
seed=int(sys.argv[1]); rnd=random.Random(seed)
ctx=Ctx(3, lambda c: rnd.choice(c))
dl=StatefulDataLoader(DS([5,1,3]), batch_size=2, num_workers=3, multiprocessing_context=ctx)
out=[]
it=iter(dl)
# patch: when a StopIteration result arrives, later tasks to that worker are unanswered
from torch.utils.data._utils.worker import _IterableDatasetStopIteration
orig=ctx.rq.get
def get(timeout=None):
    obj=orig(timeout)
    if isinstance(obj[1],tuple) and isinstance(obj[1][0],_IterableDatasetStopIteration):
        w=obj[1][0].worker_id; ctx.rq.stopped[w]=True; ctx.rq.pending[w]=0
    return obj
ctx.rq.get=get
for b in it: out.append(b.tolist())
print(seed, out, ctx.rq.log)
