"""Scratch: tiny Python transcription of _try_put_index/_next_data (iterable kind, in_order=True, no snapshots)
enumerating ALL arrival schedules, to test the C03/C05 claim (output = column-major interleave) before proving it."""
import itertools, sys
def interleave(shards):
    out=[]; j=0
    while any(j<len(s) for s in shards):
        for w,s in enumerate(shards):
            if j<len(s): out.append(s[j])
        j+=1
    return out
class St:
    pass
def explore(shards,P):
    W=len(shards); results=set(); maxout=0
    # state: tuple; DFS over arrival choices
    def init():
        s=dict(send=0,rcvd=0,info={},out=0,status=[True]*W,cyc=0,sent=[0]*W,arr=[0]*W,outp=[],)
        for _ in range(W*P): put(s)
        return s
    def put(s):
        assert s['out']<W*P, "assert tasks_outstanding < max"
        for _ in range(W):
            w=s['cyc']; s['cyc']=(s['cyc']+1)%W
            if s['status'][w]: break
        else: return
        s['info'][s['send']]=(w,); s['sent'][w]+=1; s['out']+=1; s['send']+=1
    def clone(s):
        return dict(send=s['send'],rcvd=s['rcvd'],info=dict(s['info']),out=s['out'],status=list(s['status']),cyc=s['cyc'],sent=list(s['sent']),arr=list(s['arr']),outp=list(s['outp']))
    def pending(s,w): # does worker w have an unanswered task that will be answered?
        n=len(shards[w]); return s['arr'][w]<min(s['sent'][w], n+1)
    def nxt(s):
        """run _next_data until it needs an arrival (returns ('need',)), yields ('yield',x) or ('stop',)"""
        while True:
            while s['rcvd']<s['send']:
                info=s['info'].get(s['rcvd'])
                if info:
                    w=info[0]
                    if len(info)==2 or s['status'][w]: break
                    del s['info'][s['rcvd']]
                s['rcvd']+=1
            else:
                return ('stop',)
            if len(s['info'][s['rcvd']])==2:
                w,r=s['info'].pop(s['rcvd']); s['rcvd']+=1
                if r=='STOP': continue
                put(s); s['outp'].append(r); return ('yield',r)
            assert s['out']>0, "assert tasks_outstanding > 0"
            return ('need',)
    def arrive(s,w):
        n=len(shards[w]); i=s['arr'][w]; s['arr'][w]+=1; s['out']-=1
        r = shards[w][i] if i<n else 'STOP'
        # find the idx of w's i-th real task: the oldest unanswered task of w
        idx=min(t for t,v in s['info'].items() if v==(w,) ) if False else None
        cands=sorted(t for t,v in s['info'].items() if len(v)==1 and v[0]==w)
        # tasks of w answered in FIFO order; but tasks skipped/deleted earlier can't precede (they are after STOP)
        idx=cands[0]
        if r=='STOP':
            s['status'][w]=False; put(s)
        if idx!=s['rcvd']:
            s['info'][idx]=(w,r); return None
        del s['info'][idx]; s['rcvd']+=1
        if r=='STOP': return None
        put(s); s['outp'].append(r); return ('yield',r)
    nstates=[0]
    def dfs(s):
        nstates[0]+=1
        st=nxt(s)
        while st[0]=='yield': st=nxt(s)
        if st[0]=='stop':
            results.add(tuple(s['outp'])); return
        ws=[w for w in range(W) if pending(s,w)]
        assert ws, ("deadlock", s)
        for w in ws:
            s2=clone(s); arrive(s2,w); dfs(s2)
    dfs(init())
    return results, nstates[0]
tot=0
for W in [1,2,3]:
    for P in [1,2]:
        for sizes in itertools.product(range(0,4),repeat=W):
            shards=[[w*10+i for i in range(n)] for w,n in enumerate(sizes)]
            res,n=explore(shards,P); tot+=n
            exp=tuple(interleave(shards))
            if res!={exp}: print("MISMATCH",W,P,sizes,res,exp); sys.exit(1)
print("all schedules agree with interleave; explored nodes:",tot)
