"""D18: ParallelMapper.reset() after a map_fn error leaves the OLD iterator's threads running.

_ParallelMapperImpl.reset only does `del self._it` and relies on __del__ -> _shutdown().  After __next__ re-raised an
ExceptionWrapper, the raised exception sits in a reference cycle (exception -> traceback -> frame of reraise() -> local
`exception`), and that traceback also pins the frame of __next__ and with it the iterator: `del` no longer finalises it,
so its stop event is not set and its read thread keeps pulling from the shared source next to the new iterator's reader
until the cyclic GC happens to run.  Usage: python e20.py            (exit 1 = defect present)"""
import gc
import threading
import time

from torchdata.nodes import BaseNode, ParallelMapper


class Src(BaseNode):
    def __init__(self, n):
        super().__init__()
        self.n, self.i, self.inside, self.overlaps, self.pulls = n, 0, 0, 0, []

    def reset(self, initial_state=None):
        super().reset(initial_state)
        if self.inside:
            self.overlaps += 1
        self.i = 0

    def next(self):
        if self.inside:
            self.overlaps += 1
        self.inside += 1
        try:
            time.sleep(0.05)
            if self.i >= self.n:
                raise StopIteration()
            self.i += 1
            self.pulls.append((threading.current_thread().name, self.i - 1))
            return self.i - 1
        finally:
            self.inside -= 1

    def get_state(self):
        return {"i": self.i}


def udf(x):
    if x == 1:
        raise ValueError("bad item")
    return x


gc.disable()          # make the outcome independent of when the cyclic GC happens to run
src = Src(12)
node = ParallelMapper(src, udf, num_workers=2, max_concurrent=2, snapshot_frequency=1)
node.reset()
got = [next(node)]
try:
    next(node)
except ValueError:
    pass
before = {t.name for t in threading.enumerate()}
node.reset()
epoch2 = []
try:
    while True:
        try:
            epoch2.append(next(node))
        except ValueError:
            epoch2.append("err")
except StopIteration:
    pass
readers = [t for t in threading.enumerate() if "populate_queue" in t.name]
print("epoch 2:", epoch2, "| overlapping entries into the source:", src.overlaps, "| live read threads:", len(readers))
ok = epoch2 == [0, "err"] + list(range(2, 12)) and src.overlaps == 0
print("PASS" if ok else "FAIL: the old iterator kept reading the source after reset()")
raise SystemExit(0 if ok else 1)
