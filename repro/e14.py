import torch, torch.utils.data, sys, itertools, json
from torchdata.stateful_dataloader import StatefulDataLoader
import logging; logging.disable(logging.WARNING)
import warnings; warnings.filterwarnings("ignore")
class MapDS(torch.utils.data.Dataset):
    def __init__(s,n): s.n=n
    def __len__(s): return s.n
    def __getitem__(s,i): return i
class IterDS(torch.utils.data.IterableDataset):   # README style: resets at exhaustion
    def __init__(s, sizes): s.sizes=sizes; s.i=0
    def __iter__(s):
        wi=torch.utils.data.get_worker_info(); w=wi.id if wi else 0
        n=s.sizes[w] if wi else sum(s.sizes)
        for idx in range(s.i, n):
            s.i+=1; yield w*100+idx
        s.i=0
    def state_dict(s): return {"i":s.i}
    def load_state_dict(s,sd): s.i=sd["i"]
def mk(kind, nw, bs, every, sizes, shuffle, pw, pf):
    kw=dict(batch_size=bs, num_workers=nw, snapshot_every_n_steps=every)
    if nw>0: kw.update(persistent_workers=pw, prefetch_factor=pf)
    if kind=="map": return StatefulDataLoader(MapDS(sum(sizes)), shuffle=shuffle, generator=torch.Generator().manual_seed(5) if shuffle else None, **kw)
    return StatefulDataLoader(IterDS(sizes), **kw)
def tolist(b): return b.tolist() if hasattr(b,"tolist") else b
def run(cfg, epochs=2):
    fails=[]
    dl=mk(*cfg); ref=[[tolist(b) for b in dl] for _ in range(epochs)]
    L=len(ref[0])
    for k in range(L+1):
        dl=mk(*cfg); it=iter(dl)
        for _ in range(k): next(it)
        sd=dl.state_dict()
        dl2=mk(*cfg); dl2.load_state_dict(sd)
        try: got=[[tolist(b) for b in dl2] for _ in range(epochs)]
        except Exception as e: fails.append((k,"EXC "+type(e).__name__+str(e)[:60])); continue
        exp=[ref[0][k:]]+ref[1:]
        if got!=exp: fails.append((k,got,exp))
    return L,fails
cfgs=[]
for kind,sizes in [("map",[7]),("iter",[5,2]),("iter",[4,4])]:
    for nw in [0,2]:
        for bs in [None,2]:
            for every in [1,3]:
                for shuffle in ([False,True] if kind=="map" else [False]):
                    for pw,pf in ([(False,2),(True,1),(False,3)] if nw else [(False,None)]):
                        cfgs.append((kind,nw,bs,every,sizes,shuffle,pw,pf))
for cfg in cfgs:
    try: L,f=run(cfg)
    except Exception as e: print(json.dumps(cfg),"CRASH",type(e).__name__,str(e)[:80],flush=True); continue
    print(json.dumps(cfg), "L=",L, "FAILS" if f else "ok", [x[0] for x in f], (f[0][1:] if f else ""), flush=True)
