(* Scratch spike (not part of /verif): reader + consumer of _SingleThreadedMapper with semaphore, queue, stop flag.
   Goal: measure how heavy the "invariant over every schedule" proofs are. *)
From Coq Require Import List Arith Lia Bool.
Import ListNotations.

Inductive payload := PItem (x : nat) | PStop.
Inductive rpc := RInit | RLoop | RAcq | RPull | RStore (x : nat) | RPut (x : nat) | RPutStop | RExit.
Inductive cpc := CIdle | CCheck | CGet | CRel (x : nat) (i : nat) | CRelStop | CSetStop | CInc (x i : nat) | CPop (x i : nat).
Inductive outcome := OItem (x : nat) | OStop.

Record st := {
  xs : list nat; K : nat; f : nat;
  pulled : nat; yielded : nat; idx : nat; r : rpc;
  sem : nat; q : list (payload * nat); store : list (nat * nat); (* version, source position *)
  stop : bool;
  c : cpc; snap : nat; steps : nat; outs : list outcome }.

Definition upd_r s r' := {| xs:=xs s; K:=K s; f:=f s; pulled:=pulled s; yielded:=yielded s; idx:=idx s; r:=r';
  sem:=sem s; q:=q s; store:=store s; stop:=stop s; c:=c s; snap:=snap s; steps:=steps s; outs:=outs s |}.

Inductive tid := TR | TC.
Inductive mode := Go | Timeout.

Fixpoint pop_version (v : nat) (l : list (nat*nat)) : option nat * list (nat*nat) :=
  match l with
  | [] => (None, [])
  | (ver, val) :: tl => if ver <=? v then
        let '(res, rest) := pop_version v tl in
        (match res with Some _ => res | None => if ver =? v then Some val else None end, rest)
      else (None, l)
  end.

Definition step_r (m : mode) (s : st) : st :=
  match r s with
  | RInit => {| xs:=xs s; K:=K s; f:=f s; pulled:=pulled s; yielded:=yielded s; idx:=idx s; r:=RLoop;
                sem:=sem s; q:=q s; store:=store s ++ [(0, pulled s)]; stop:=stop s; c:=c s; snap:=snap s; steps:=steps s; outs:=outs s |}
  | RLoop => if stop s then upd_r s RExit else upd_r s RAcq
  | RAcq => match m, sem s with
            | Go, S n => {| xs:=xs s; K:=K s; f:=f s; pulled:=pulled s; yielded:=yielded s; idx:=idx s; r:=RPull;
                sem:=n; q:=q s; store:=store s; stop:=stop s; c:=c s; snap:=snap s; steps:=steps s; outs:=outs s |}
            | Go, O => s
            | Timeout, _ => upd_r s RLoop
            end
  | RPull => match nth_error (xs s) (pulled s) with
             | Some x => let y := S (yielded s) in
                 {| xs:=xs s; K:=K s; f:=f s; pulled:=S (pulled s); yielded:=y; idx:=idx s;
                    r:= if andb (0 <? f s) (y mod (f s) =? 0) then RStore x else RPut x;
                    sem:=sem s; q:=q s; store:=store s; stop:=stop s; c:=c s; snap:=snap s; steps:=steps s; outs:=outs s |}
             | None => upd_r s RPutStop
             end
  | RStore x => {| xs:=xs s; K:=K s; f:=f s; pulled:=pulled s; yielded:=yielded s; idx:=idx s; r:=RPut x;
                sem:=sem s; q:=q s; store:=store s ++ [(S (idx s), pulled s)]; stop:=stop s; c:=c s; snap:=snap s; steps:=steps s; outs:=outs s |}
  | RPut x => {| xs:=xs s; K:=K s; f:=f s; pulled:=pulled s; yielded:=yielded s; idx:=S (idx s); r:=RLoop;
                sem:=sem s; q:=q s ++ [(PItem x, idx s)]; store:=store s; stop:=stop s; c:=c s; snap:=snap s; steps:=steps s; outs:=outs s |}
  | RPutStop => {| xs:=xs s; K:=K s; f:=f s; pulled:=pulled s; yielded:=yielded s; idx:=S (idx s); r:=RExit;
                sem:=sem s; q:=q s ++ [(PStop, idx s)]; store:=store s; stop:=stop s; c:=c s; snap:=snap s; steps:=steps s; outs:=outs s |}
  | RExit => s
  end.

Definition upd_c s c' := {| xs:=xs s; K:=K s; f:=f s; pulled:=pulled s; yielded:=yielded s; idx:=idx s; r:=r s;
  sem:=sem s; q:=q s; store:=store s; stop:=stop s; c:=c'; snap:=snap s; steps:=steps s; outs:=outs s |}.

Definition step_c (m : mode) (s : st) : st :=
  match c s with
  | CIdle => upd_c s CCheck                      (* user calls next() *)
  | CCheck => if stop s then {| xs:=xs s; K:=K s; f:=f s; pulled:=pulled s; yielded:=yielded s; idx:=idx s; r:=r s;
                sem:=sem s; q:=q s; store:=store s; stop:=stop s; c:=CIdle; snap:=snap s; steps:=steps s; outs:=outs s ++ [OStop] |}
              else upd_c s CGet
  | CGet => match m, q s with
            | Go, (PItem x, i) :: tl => {| xs:=xs s; K:=K s; f:=f s; pulled:=pulled s; yielded:=yielded s; idx:=idx s; r:=r s;
                sem:=sem s; q:=tl; store:=store s; stop:=stop s; c:=CRel x i; snap:=snap s; steps:=steps s; outs:=outs s |}
            | Go, (PStop, i) :: tl => {| xs:=xs s; K:=K s; f:=f s; pulled:=pulled s; yielded:=yielded s; idx:=idx s; r:=r s;
                sem:=sem s; q:=tl; store:=store s; stop:=stop s; c:=CRelStop; snap:=snap s; steps:=steps s; outs:=outs s |}
            | Go, [] => s
            | Timeout, _ => upd_c s CCheck
            end
  | CRelStop => {| xs:=xs s; K:=K s; f:=f s; pulled:=pulled s; yielded:=yielded s; idx:=idx s; r:=r s;
                sem:=S (sem s); q:=q s; store:=store s; stop:=stop s; c:=CSetStop; snap:=snap s; steps:=steps s; outs:=outs s |}
  | CSetStop => {| xs:=xs s; K:=K s; f:=f s; pulled:=pulled s; yielded:=yielded s; idx:=idx s; r:=r s;
                sem:=sem s; q:=q s; store:=store s; stop:=true; c:=CIdle; snap:=snap s; steps:=steps s; outs:=outs s ++ [OStop] |}
  | CRel x i => {| xs:=xs s; K:=K s; f:=f s; pulled:=pulled s; yielded:=yielded s; idx:=idx s; r:=r s;
                sem:=S (sem s); q:=q s; store:=store s; stop:=stop s; c:=CInc x i; snap:=snap s; steps:=steps s; outs:=outs s |}
  | CInc x i => {| xs:=xs s; K:=K s; f:=f s; pulled:=pulled s; yielded:=yielded s; idx:=idx s; r:=r s;
                sem:=sem s; q:=q s; store:=store s; stop:=stop s; c:=CPop x i; snap:=snap s; steps:=S (steps s); outs:=outs s |}
  | CPop x i => let '(res, rest) := pop_version (S i) (store s) in
               {| xs:=xs s; K:=K s; f:=f s; pulled:=pulled s; yielded:=yielded s; idx:=idx s; r:=r s;
                sem:=sem s; q:=q s; store:=rest; stop:=stop s; c:=CIdle;
                snap:= match res with Some v => v | None => snap s end;
                steps:= match res with Some _ => 0 | None => steps s end; outs:=outs s ++ [OItem x] |}
  end.

Definition step (s : st) (ch : tid * mode) : st :=
  match ch with (TR, m) => step_r m s | (TC, m) => step_c m s end.
Definition run (sched : list (tid * mode)) (s : st) : st := fold_left step sched s.

Definition init (l : list nat) (k fr : nat) : st :=
  {| xs:=l; K:=k; f:=fr; pulled:=0; yielded:=0; idx:=0; r:=RInit; sem:=k; q:=[]; store:=[]; stop:=false;
     c:=CIdle; snap:=0; steps:=0; outs:=[] |}.

(* ---- C12 accounting invariant ---- *)
Definition r_hold (p : rpc) : nat := match p with RPull | RStore _ | RPut _ | RPutStop => 1 | _ => 0 end.
Definition c_hold (p : cpc) : nat := match p with CRel _ _ | CRelStop => 1 | _ => 0 end.
Definition Acc (s : st) : Prop := sem s + length (q s) + r_hold (r s) + c_hold (c s) = K s.

Lemma acc_init l k fr : Acc (init l k fr).
Proof. unfold Acc, init; simpl; lia. Qed.

Ltac break_goal := repeat match goal with
  | |- context [match ?x with _ => _ end] => destruct x eqn:?
  end.
Lemma acc_step s ch : Acc s -> Acc (step s ch).
Proof.
  unfold Acc. intros H. destruct ch as [[|] m]; cbn [step]; [unfold step_r | unfold step_c];
  break_goal; cbn in *; rewrite ?app_length in *; cbn in *;
  repeat match goal with E : r _ = _ |- _ => rewrite E in * | E : c _ = _ |- _ => rewrite E in * | E : sem _ = _ |- _ => rewrite E in * | E : q _ = _ |- _ => rewrite E in * end;
  cbn in *; lia.
Qed.

Theorem acc_always l k fr sched : Acc (run sched (init l k fr)).
Proof.
  unfold run. generalize (acc_init l k fr). generalize (init l k fr).
  induction sched as [|ch sched IH]; intros s H; cbn [fold_left]; [exact H|].
  apply IH, acc_step, H.
Qed.

(* bound: items pulled but not yet handed to the consumer *)
Corollary readahead_bounded l k fr sched :
  let s := run sched (init l k fr) in length (q s) + r_hold (r s) <= k.
Proof.
  intros s. pose proof (acc_always l k fr sched) as H. unfold Acc in H. fold s in H.
  assert (K s = k).
  { subst s. unfold run. assert (forall sch s0, K (fold_left step sch s0) = K s0) as HK.
    { induction sch as [|[[|] m] sch IH]; intros s0; cbn [fold_left]; [reflexivity| |]; rewrite IH; cbn [step];
      [unfold step_r | unfold step_c]; break_goal; reflexivity. }
    rewrite HK. reflexivity. }
  lia.
Qed.
Print Assumptions readahead_bounded.

Definition rr (n : nat) : list (tid * mode) := concat (repeat [(TR,Go);(TC,Go)] n).
Example demo : firstn 5 (outs (run (rr 40) (init [7;8;9] 2 2))) = [OItem 7; OItem 8; OItem 9; OStop; OStop]
  /\ (let s := run (rr 16) (init [7;8;9] 2 2) in (outs s, snap s, steps s, store s)) = ([OItem 7; OItem 8], 2, 0, []).
Proof. vm_compute. split; reflexivity. Qed.
