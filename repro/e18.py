# D15: sampler epoch advances although the user requested nothing in the epoch
from torchdata.nodes import *
class ES:
    def __init__(s): s.e=0
    def set_epoch(s,e): s.e=e
    def __iter__(s): return iter([[18,12,15],[19,8,11],[1,2,3]][s.e])
    def __len__(s): return 3
ld = Loader(SamplerWrapper(ES()))
sd = ld.state_dict(); ld.load_state_dict(sd); it = iter(ld); it = iter(ld)
print("after state_dict/load/iter/iter first item:", next(it), "(epoch 0's first item is 18)")
ld = Loader(Prefetcher(SamplerWrapper(ES()), 2)); it = iter(ld); import time; time.sleep(0.3); it = iter(ld)
print("Prefetcher: after iter/iter first item:", next(it), "(18 expected; read-ahead pulled an item in the idle epoch)")
