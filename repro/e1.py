import torch, torch.utils.data, sys
from torchdata.stateful_dataloader import StatefulDataLoader
class MyIterableDataset(torch.utils.data.IterableDataset):
  def __init__(self, high, seed):
    self.high, self.seed = high, seed
    self.g = torch.Generator()
    self.i = 0
  def __iter__(self):
    worker_info = torch.utils.data.get_worker_info()
    if worker_info is not None:
      worker_id = worker_info.id; num_workers = worker_info.num_workers
    else:
      worker_id = 0; num_workers = 1
    self.g.manual_seed(self.seed)
    arr = torch.randperm(self.high, generator=self.g)
    arr = arr[worker_id:self.high:num_workers]
    for idx in range(self.i, len(arr)):
      self.i += 1
      yield arr[idx]
    self.i = 0
  def state_dict(self): return {"i": self.i}
  def load_state_dict(self, sd): self.i = sd["i"]

if __name__=="__main__":
  N=int(sys.argv[1]); bs=int(sys.argv[2]); nw=int(sys.argv[3])
  ref=[b.tolist() for b in StatefulDataLoader(MyIterableDataset(N,0),batch_size=bs,num_workers=nw)]
  print("ref",ref)
  for k in range(len(ref)+1):
    dl=StatefulDataLoader(MyIterableDataset(N,0),batch_size=bs,num_workers=nw)
    it=iter(dl)
    got=[next(it).tolist() for _ in range(k)]
    sd=dl.state_dict()
    dl2=StatefulDataLoader(MyIterableDataset(N,0),batch_size=bs,num_workers=nw)
    dl2.load_state_dict(sd)
    rest=[b.tolist() for b in dl2]
    ok = rest==ref[k:] if k<len(ref) else None
    print(k, ok, rest)
