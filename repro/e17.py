# D8 sweep: stateless iterable dataset, chains of two resumes, several snapshot intervals
import torch, torch.utils.data, sys, itertools
from torchdata.stateful_dataloader import StatefulDataLoader
import logging; logging.disable(logging.WARNING)
import warnings; warnings.filterwarnings("ignore")
class IterDSPlain(torch.utils.data.IterableDataset):
    def __init__(s, sizes): s.sizes=sizes
    def __iter__(s):
        wi=torch.utils.data.get_worker_info(); w=wi.id if wi else 0
        n=s.sizes[w] if wi else sum(s.sizes)
        for i in range(n): yield w*100+i
bad=0; tot=0
for nw, I, bs in itertools.product([0,2],[1,2,3],[1,2]):
    mk=lambda: StatefulDataLoader(IterDSPlain([7,4]), batch_size=bs, num_workers=nw, snapshot_every_n_steps=I)
    ref=[b.tolist() for b in mk()]
    for k1 in range(0,len(ref)+1):
      for j in range(0,len(ref)-k1+1,2):
        dl=mk(); it=iter(dl); [next(it) for _ in range(k1)]; sd=dl.state_dict()
        dl2=mk(); dl2.load_state_dict(sd); it=iter(dl2); a=[next(it).tolist() for _ in range(j)]; sd2=dl2.state_dict()
        dl3=mk(); dl3.load_state_dict(sd2)
        try: rest=[b.tolist() for b in dl3]
        except Exception as e: rest="EXC %r"%e
        tot+=1
        if a!=ref[k1:k1+j] or rest!=ref[k1+j:]:
            bad+=1; print("FAIL",nw,I,bs,k1,j,a,rest)
print("total",tot,"bad",bad)
