# D14: Loader: load an end-of-epoch state, iter() restarts the epoch, but state_dict() keeps returning the stale end state
from torchdata.nodes import *
ld = Loader(IterableWrapper(range(4)))
it = iter(ld); [next(it) for _ in range(4)]
sd_end = ld.state_dict()
ld2 = Loader(IterableWrapper(range(4))); ld2.load_state_dict(sd_end)
it2 = iter(ld2); got = [next(it2), next(it2)]
sd_mid = ld2.state_dict()
print("got", got, "state after 2 items of restarted epoch:", sd_mid)
ld3 = Loader(IterableWrapper(range(4))); ld3.load_state_dict(sd_mid)
print("resumed:", list(ld3), "expected [2, 3]")
