import torch, time, threading, os, signal, sys
from torchdata.nodes import *
t0=time.time()
def watchdog():
    time.sleep(20); print("WATCHDOG: still blocked after 20s -> HANG", flush=True); os.killpg(os.getpgid(0), signal.SIGKILL)
threading.Thread(target=watchdog,daemon=True).start()
which=sys.argv[1]
if which=="d7":
    def f(x):
        if x==4: os.kill(os.getpid(), signal.SIGKILL)
        return x
    node = ParallelMapper(IterableWrapper(range(8)), f, num_workers=2, method="process")
    for i in range(8):
        try: print("got", next(node), round(time.time()-t0,2), flush=True)
        except Exception as e: print("exc", type(e).__name__, e, flush=True); break
if which=="d10":
    class Slow(BaseNode):
        def __init__(s): super().__init__(); s.inside=0; s.maxinside=0; s.log=[]
        def _enter(s,what):
            s.inside+=1; s.maxinside=max(s.maxinside,s.inside); s.log.append((what,threading.current_thread().name))
        def reset(s, st=None):
            s._enter("reset"); super().reset(st); s.i=0; s.inside-=1
        def next(s):
            s._enter("next"); 
            try:
                if s.i==2: time.sleep(1.5)
                if s.i==6: raise StopIteration
                s.i+=1; return s.i-1
            finally: s.inside-=1
        def get_state(s): return {"i":s.i}
    src=Slow(); node=Prefetcher(src, 2)
    ld=Loader(node); it=iter(ld)
    print("epoch1 first:", next(it), next(it)); time.sleep(0.2)
    ep2=list(ld)
    print("epoch2:", ep2, "max threads inside source:", src.maxinside)
