"""D19: StatefulDataLoader(in_order=False, snapshot_every_n_steps>1, num_workers>1): plain iteration dies with an
AssertionError in _take_snapshot when batches return out of order (the guard only covered 'no main snapshot yet').
Usage: python e22.py   (exit 1 = defect present)"""
import time
import warnings

import torch
from torchdata.stateful_dataloader import StatefulDataLoader

warnings.filterwarnings("ignore")


class DS(torch.utils.data.Dataset):
    def __len__(self):
        return 7

    def __getitem__(self, i):
        time.sleep({0: 0.3, 5: 0.5, 4: 0.4}.get(i, 0.0))      # arrival order of the batches: 1, 3, 0, 2, 5, 4, 6
        return i


dl = StatefulDataLoader(DS(), batch_size=1, num_workers=2, prefetch_factor=3, in_order=False, snapshot_every_n_steps=3)
try:
    got = sorted(int(b[0]) for b in dl)
    ok = got == list(range(7))
    print("epoch", got)
except AssertionError as e:
    ok = False
    print("AssertionError in the middle of the epoch:", e)
print("PASS" if ok else "FAIL")
raise SystemExit(0 if ok else 1)
