"""Scratch: Python transcription of the SDL multi-process iterator incl. snapshot flags, _take_snapshot, state_dict and
resume; explores ALL arrival schedules of the original run and of the resumed run for small configs and checks
continuation == reference[k:] (C01/C05 statement pre-proof test)."""
import itertools, sys, copy
class AssertFail(Exception): pass
def A(c,msg):
    if not c: raise AssertFail(msg)

class Sys:
    def __init__(s, kind, W, P, I, shards=None, bs=1, drop=False, nbatches=0, resume=None):
        s.kind=kind; s.W=W; s.P=P; s.I=I; s.shards=shards; s.bs=bs; s.drop=drop; s.nb=nbatches
        # workers: position/ended (iterable) ; map workers are stateless
        s.wpos=[0]*W; s.wended=[False]*W; s.wq=[[] for _ in range(W)]   # index queues (unanswered tasks)
        s.wdead=[False]*W   # iteration_end in worker
        s.send=0; s.rcvd=0; s.info={}; s.outst=0; s.status=[True]*W; s.cyc=0
        s.num_yielded=0; s.siy=0; s.samp=0   # sampler position (map)
        s.main_snaps=[]; s.last=W-1; s.outp=[]; s.finished=False
        s.wsnap=[(0,False)]*W
        if resume is not None:
            snap,steps=resume
            B,last,main,wst=snap
            for w in range(W): s.wpos[w],s.wended[w]=wst[w]; s.wsnap[w]=wst[w]
        s.snapshot=(0,W-1,(0,0),tuple(s.wsnap))
        if resume is None:
            for _ in range(W*P): s.put()
        else:
            s.siy,s.samp=main; s.num_yielded=B
            s.snapshot=(B,last,main,tuple(s.wsnap))
            s.last=last; s.cyc=(last+1)%W
            for _ in range(W*P): s.put()
            s.replay=steps
    def clone(s): return copy.deepcopy(s)
    def put(s):
        A(s.outst<s.W*s.P,"outstanding<max")
        if s.kind=='map':
            if s.samp>=s.nb: return
            index=s.samp; s.samp+=1
        else: index=None
        s.siy+=1
        snap_main=snap=False
        if s.I:
            if s.kind=='iter':
                x=s.num_yielded % s.I; hi=x+1+s.W*s.P
                if hi>=s.I: snap_main=True
                if hi+s.W>=s.I: snap=True
            else:
                if s.siy % s.I==0: snap_main=True
                if ((s.siy-1)%s.I)+s.W>=s.I: snap=True
        for _ in range(s.W):
            w=s.cyc; s.cyc=(s.cyc+1)%s.W
            if s.status[w]: break
        else: return
        if snap_main:
            A(snap,"assert snapshot"); s.main_snaps.append((s.send,(s.siy,s.samp)))
        s.wq[w].append((s.send,index,snap)); s.info[s.send]=(w,); s.outst+=1; s.send+=1
    def can_arrive(s,w): return (not s.wdead[w]) and len(s.wq[w])>0
    def worker_fetch(s,w):
        idx,index,snap=s.wq[w].pop(0)
        if s.kind=='map':
            data=('B',index); st=(0,False) if snap else None
            return idx,data,st
        if s.wended[w]: data='STOP'
        else:
            items=s.shards[w][s.wpos[w]:s.wpos[w]+s.bs]; s.wpos[w]+=len(items)
            if len(items)<s.bs: s.wended[w]=True
            if len(items)==0 or (s.drop and len(items)<s.bs): data='STOP'
            else: data=tuple(items)
        if data=='STOP': s.wdead[w]=True
        st=(s.wpos[w],s.wended[w]) if (snap or data=='STOP') else None
        return idx,data,st
    def process(s,data,w,st):
        s.put()
        s.last=w
        if st is not None: s.wsnap[w]=st
        if s.I and (s.num_yielded+1)%s.I==0: s.take_snapshot()
        s.num_yielded+=1; s.outp.append(data); return ('yield',data)
    def take_snapshot(s):
        mi=None
        while s.main_snaps and s.main_snaps[0][0]<=s.rcvd-1: mi,main=s.main_snaps.pop(0)
        A(mi==s.rcvd-1,("main_snapshot_idx",mi,s.rcvd-1))
        s.snapshot=(s.num_yielded+1,s.last,main,tuple(s.wsnap))
    def nxt(s):
        while True:
            while s.rcvd<s.send:
                info=s.info.get(s.rcvd)
                if info:
                    w=info[0]
                    if len(info)==2 or s.status[w]: break
                    del s.info[s.rcvd]
                s.rcvd+=1
            else:
                s.finished=True; return ('stop',)
            if len(s.info[s.rcvd])==2:
                w,(data,st)=s.info.pop(s.rcvd); s.rcvd+=1
                if data=='STOP':
                    if st is not None: s.wsnap[w]=st
                    continue
                return s.process(data,w,st)
            A(s.outst>0,"outstanding>0")
            return ('need',)
    def arrive(s,w):
        idx,data,st=s.worker_fetch(w); s.outst-=1
        if data=='STOP':
            s.status[w]=False; A(st is not None,"stop carries state"); s.put()
        if idx!=s.rcvd:
            s.info[idx]=(w,(data,st)); return None
        del s.info[idx]; s.rcvd+=1
        if data=='STOP':
            s.wsnap[w]=st; return None
        return s.process(data,w,st)
    def state_dict(s): return (s.snapshot, s.num_yielded-s.snapshot[0])

def run_all(mk, upto=None, collect_sd=False):
    """explore all schedules; returns set of outputs, and dict k -> set(state_dict)"""
    outs=set(); sds={}
    def advance(s):
        # drive nxt until need/stop ; record sd after each yield
        while True:
            r=s.nxt()
            if r[0]=='yield':
                if collect_sd: sds.setdefault(len(s.outp),set()).add(s.state_dict())
                continue
            return r
    def dfs(s, pending_event=None):
        r=advance(s)
        if r[0]=='stop': outs.add(tuple(s.outp)); return
        ws=[w for w in range(s.W) if s.can_arrive(w)]
        A(ws,"deadlock")
        for w in ws:
            s2=s.clone(); e=s2.arrive(w)
            if e and collect_sd: sds.setdefault(len(s2.outp),set()).add(s2.state_dict())
            dfs(s2)
    s0=mk()
    if collect_sd: sds.setdefault(0,set()).add(s0.state_dict())
    dfs(s0)
    return outs,sds

def check(kind,W,P,I,sizes=None,bs=1,drop=False,nb=0):
    shards=[[w*10+i for i in range(n)] for w,n in enumerate(sizes)] if sizes else None
    mk=lambda: Sys(kind,W,P,I,shards,bs,drop,nb)
    outs,sds=run_all(mk,collect_sd=True)
    A(len(outs)==1,("schedule dependent output",outs))
    ref=list(next(iter(outs)))
    for k,sdset in sds.items():
        for sd in sdset:
            def mk2():
                s=Sys(kind,W,P,I,shards,bs,drop,nb,resume=sd); return s
            # resumed: replay steps then the rest; outputs of resumed run (after dropping replay) must equal ref[k:]
            outs2,_=run_all(mk2)
            for o in outs2:
                o=list(o)[sd[1]:]
                A(o==ref[k:],("resume mismatch",kind,W,P,I,sizes,bs,drop,nb,"k",k,"sd",sd,"got",o,"exp",ref[k:]))
    return len(sds), sum(len(v) for v in sds.values())
n=0
try:
    for W in [1,2,3]:
        for P in [1,2]:
            for I in [0,1,2,3,5]:
                for nb in [0,1,4,7]:
                    check('map',W,P,I,nb=nb); n+=1
                rng=range(0,4) if W<3 else range(0,3)
                for sizes in itertools.product(rng,repeat=W):
                    for bs,drop in [(1,False),(2,False),(2,True)]:
                        if W==3 and P==2 and bs==1 and sum(sizes)>5: continue
                        check('iter',W,P,I,sizes=sizes,bs=bs,drop=drop); n+=1
    print("configs checked",n,"all resumes exact")
except AssertFail as e:
    print("FAIL",e)
