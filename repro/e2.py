import torch, copy, pickle, time, threading
from torchdata.nodes import *
# C02: None item
src = IterableWrapper([1, 2, None, 4, 5])
ld = Loader(src)
it = iter(ld); a=[next(it), next(it)]
sd = ld.state_dict()
rest=list(it)
ld2 = Loader(IterableWrapper([1, 2, None, 4, 5])); ld2.load_state_dict(sd)
print("C02 ref rest", rest, "resumed", list(ld2))
# falsy items (0) fine?
ld = Loader(IterableWrapper([0,0,0])); it=iter(ld); next(it); sd=ld.state_dict()
ld2=Loader(IterableWrapper([0,0,0])); ld2.load_state_dict(sd); print("C02 zeros", list(ld2))

# C13: state_dict, load, iter
ld = Loader(IterableWrapper(range(5)))
it = iter(ld); next(it); next(it); sd = ld.state_dict()
ld2 = Loader(IterableWrapper(range(5)))
_ = ld2.state_dict()
ld2.load_state_dict(sd)
print("C13 after state_dict/load/iter:", list(ld2), "then", list(ld2))

# C08: weighted sampler aliasing
def mk():
    return MultiNodeWeightedSampler({"a": IterableWrapper(range(3)), "b": IterableWrapper(range(10,20))}, {"a":1.0,"b":1.0}, stop_criteria=StopCriteria.ALL_DATASETS_EXHAUSTED, seed=3)
ld = Loader(mk()); it=iter(ld); [next(it) for _ in range(2)]; sd=ld.state_dict(); p=pickle.dumps(sd)
ld2=Loader(mk()); ld2.load_state_dict(sd); r1=list(ld2)
print("C08 sd changed by load+iterate:", pickle.loads(p)!=sd, sd["root"]["datasets_exhausted"])
ld3=Loader(mk()); ld3.load_state_dict(sd); r2=list(ld3)
print("C08 same continuation:", r1==r2, r1, r2)
