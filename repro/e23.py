"""D20 — SnapshotStore.get_initial_snapshot: check-then-act race between the timed queue get and thread.is_alive().

Prefetcher.reset() waits for the read thread's initial snapshot with `q.get(timeout=0.1)`; when that raises queue.Empty it tests
`thread.is_alive()` and gives up if the thread is dead.  If the read thread appends its snapshot, forwards a short source completely and
exits BETWEEN the expiry of the get and the liveness test, reset() raises "Failed to get initial snapshot" although nothing failed
(a healthy pipeline over a 1-item source).  The interleaving is forced here: the source's first state_dict() takes 0.15 s (so the first timed get
expires) and Thread.is_alive() is wrapped so that the read thread finishes before the consumer's test reads its status — the preemption
a scheduler may perform at that point.

exit 0 = the epoch is [9] (fixed behaviour); exit 1 = spurious RuntimeError (the defect)."""
import sys
import threading
import time

from torchdata.nodes import BaseNode, Prefetcher


class Slow(BaseNode):
    def __init__(self):
        super().__init__()

    def reset(self, initial_state=None):
        super().reset(initial_state)
        self.i = 0
        self.slow = True

    def next(self):
        if self.i >= 1:
            raise StopIteration()
        self.i += 1
        return 9

    def get_state(self):
        if self.slow:               # the first state_dict() (the read thread's initial snapshot) takes longer than the 0.1 s poll
            self.slow = False
            time.sleep(0.15)
        return {"i": self.i}


_orig = threading.Thread.is_alive


_cur, _main = threading.current_thread, threading.main_thread()


def is_alive(self):
    if _cur() is _main and "_populate_queue" in (self.name or ""):
        self.join(2.0)          # the consumer is descheduled right before it reads the thread's status
    return _orig(self)


threading.Thread.is_alive = is_alive
try:
    node = Prefetcher(Slow(), prefetch_factor=3)
    node.reset()
    got = []
    while True:
        try:
            got.append(node.next())
        except StopIteration:
            break
    print("epoch:", got)
    sys.exit(0 if got == [9] else 1)
except RuntimeError as e:
    print("FAIL: RuntimeError:", str(e)[:160])
    sys.exit(1)
