import torch, torch.utils.data, sys
from torchdata.stateful_dataloader import StatefulDataLoader
import logging; logging.disable(logging.WARNING)
import warnings; warnings.filterwarnings("ignore")
class MapDS(torch.utils.data.Dataset):
    def __init__(s,n,bad): s.n=n; s.bad=bad
    def __len__(s): return s.n
    def __getitem__(s,i):
        if i in s.bad: raise ValueError(f"bad {i}")
        return i
for nw in [0,2]:
  for every in [1,2]:
    dl=StatefulDataLoader(MapDS(12,{2}), batch_size=1, num_workers=nw, snapshot_every_n_steps=every)
    it=iter(dl); out=[]
    while True:
        try: out.append(next(it).tolist())
        except StopIteration: break
        except Exception as e: out.append(type(e).__name__)
        if len(out)>30: break
    print(nw, every, out)
